(* PrioHold.v — the minimum on/off hold of the commandable model (property C17):
   slot 6 and the pending release are, after every history that does not command priority 6
   itself, exactly the hold the statement describes (Prio.hold_after): started by the last change
   of the present value to a state with a minimum time > 0, ending exactly that time later, and
   untouched by everything else (a flip to a state without minimum time included). *)
From Coq Require Import ZifyBool ZifyN ZifyNat.
From Bac Require Import Base Prio PrioFacts.
Ltac Zify.zify_post_hook ::= Z.to_euclidean_division_equations.
Open Scope Z_scope.

Definition live (g : hold) (nw : Z) : Prop :=
  match g with Some (_, u) => nw < u | None => True end.

(* the model's slot 6 / pending release are the hold g *)
Definition hold_inv (o : obj) (g : hold) : Prop :=
  slot6 o = Some (option_map fst g) /\ timer o = option_map snd g /\ live g (now o).

Lemma expire_live : forall g nw, live g nw -> expire g nw = g.
Proof.
  intros [[v u]|] nw H; cbn in *; [|reflexivity].
  replace (u <=? nw) with false by lia. reflexivity.
Qed.

Lemma expire_dead : forall v u nw, u <= nw -> expire (Some (v, u)) nw = None.
Proof. intros. cbn. replace (u <=? nw) with true by lia. reflexivity. Qed.

Lemma hold_step_same : forall on off g p nw, live g nw -> hold_step on off g p p nw = g.
Proof.
  intros. unfold hold_step. rewrite Z.eqb_refl. cbn [negb andb]. apply expire_live. assumption.
Qed.

Lemma hold_step_new : forall on off g p w nw,
  w <> p -> 0 < min_time on off w ->
  hold_step on off g p w nw = Some (w, nw + min_time on off w).
Proof.
  intros. unfold hold_step.
  replace (w =? p) with false by lia. replace (0 <? min_time on off w) with true by lia.
  cbn [negb andb]. apply expire_live. cbn. lia.
Qed.

Lemma hold_step_free : forall on off g p w nw,
  min_time on off w = 0 -> hold_step on off g p w nw = expire g nw.
Proof.
  intros. unfold hold_step. rewrite H. change (0 <? 0) with false.
  rewrite Bool.andb_false_r. reflexivity.
Qed.

Lemma hold_step_spec : forall on off g p w nw,
  (w <> p -> 0 < min_time on off w -> hold_step on off g p w nw = Some (w, nw + min_time on off w)) /\
  (min_time on off w = 0 -> hold_step on off g p w nw = expire g nw) /\
  (live g nw -> hold_step on off g p p nw = g) /\
  (forall v u, u <= nw -> expire (Some (v, u)) nw = None) /\ (live g nw -> expire g nw = g).
Proof.
  intros. exact (conj (hold_step_new on off g p w nw) (conj (hold_step_free on off g p w nw)
    (conj (hold_step_same on off g p nw) (conj (fun v u => expire_dead v u nw) (expire_live g nw))))).
Qed.

(* a write that is not at priority 6 *)
Lemma hold_write : forall o i v g,
  monitored o = true -> length (slots o) = 16%nat -> 0 <= min_on o -> 0 <= min_off o ->
  i <> 6 -> hold_inv o g ->
  let o' := fst (write_spec o i v) in
  hold_inv o' (hold_step (min_on o) (min_off o) g (pv o) (pv o') (now o)).
Proof.
  intros o i v g Hm Hlen Hon Hoff Hi [H6 [Ht Hn]].
  destruct o as [sl d p m on off tm nw]. unfold write_spec, hold_inv, slot6 in *.
  cbn [slots dflt pv monitored min_on min_off timer now with_slots with_pv] in *. subst m.
  destruct (i =? 0) eqn:E0.
  { cbn [fst slots pv timer now]. rewrite hold_step_same by assumption. auto. }
  destruct ((i <? 1) || (i >? 16)) eqn:E1.
  { cbn [fst slots pv timer now]. rewrite hold_step_same by assumption. auto. }
  assert (Hk : (5%nat <> Z.to_nat (i - 1))) by lia.
  set (sl1 := set_nth (Z.to_nat (i - 1)) v sl) in *.
  assert (H61 : nth_error sl1 5 = Some (option_map fst g)).
  { unfold sl1. rewrite set_nth_other by exact Hk. exact H6. }
  assert (Hl1 : (5 < length sl1)%nat) by (unfold sl1; rewrite set_nth_length; lia).
  set (w := winner sl1 d) in *.
  destruct (w =? p) eqn:Ew.
  { cbn [fst slots pv timer now].
    rewrite hold_step_same by assumption. auto. }
  cbn [negb]. unfold hold_time. cbn [min_on min_off with_timer with_slots with_pv].
  assert (Hwp : w <> p) by lia.
  destruct (w =? ACTIVE) eqn:Ea.
  - assert (Hmt : min_time on off w = on) by (unfold min_time; rewrite Ea; reflexivity).
    destruct (on =? 0) eqn:Eon.
    + cbn [fst slots pv timer now with_pv].
      rewrite hold_step_free by lia. rewrite expire_live by assumption. auto.
    + cbn [fst slots pv timer now with_pv with_slots with_timer].
      rewrite hold_step_new by lia. rewrite Hmt. cbn [option_map fst snd live].
      rewrite set_nth_same by exact Hl1. repeat split; try reflexivity. lia.
  - destruct (w =? INACTIVE) eqn:Ei.
    + assert (Hmt : min_time on off w = off) by (unfold min_time; rewrite Ea, Ei; reflexivity).
      destruct (off =? 0) eqn:Eoff.
      * cbn [fst slots pv timer now with_pv].
        rewrite hold_step_free by lia. rewrite expire_live by assumption. auto.
      * cbn [fst slots pv timer now with_pv with_slots with_timer].
        rewrite hold_step_new by lia. rewrite Hmt. cbn [option_map fst snd live].
        rewrite set_nth_same by exact Hl1. repeat split; try reflexivity. lia.
    + assert (Hmt : min_time on off w = 0) by (unfold min_time; rewrite Ea, Ei; reflexivity).
      cbn [fst slots pv timer now with_pv].
      rewrite hold_step_free by exact Hmt. rewrite expire_live by assumption. auto.
Qed.

(* the release: a write of null at priority 6 with the timer already taken off the schedule *)
Lemma hold_release : forall o v u,
  monitored o = true -> length (slots o) = 16%nat -> 0 <= min_on o -> 0 <= min_off o ->
  u <= now o ->
  let o' := fst (write_spec (with_timer o None) 6 None) in
  hold_inv o' (hold_step (min_on o) (min_off o) (Some (v, u)) (pv o) (pv o') (now o)).
Proof.
  intros o v u Hm Hlen Hon Hoff Hu.
  destruct o as [sl d p m on off tm nw]. unfold write_spec, hold_inv, slot6 in *.
  cbn [slots dflt pv monitored min_on min_off timer now with_slots with_pv with_timer] in *. subst m.
  change (6 =? 0) with false. change ((6 <? 1) || (6 >? 16)) with false. cbn iota.
  change (Z.to_nat (6 - 1)) with 5%nat.
  set (sl1 := set_nth 5 None sl) in *.
  assert (Hl : (5 < length sl)%nat) by lia.
  assert (Hl1 : (5 < length sl1)%nat) by (unfold sl1; rewrite set_nth_length; lia).
  assert (H61 : nth_error sl1 5 = Some None) by (unfold sl1; apply set_nth_same; exact Hl).
  set (w := winner sl1 d) in *.
  destruct (w =? p) eqn:Ew.
  { cbn [fst slots pv timer now with_slots].
    unfold hold_step. rewrite Z.eqb_refl. cbn [negb andb]. rewrite expire_dead by exact Hu.
    cbn. auto. }
  cbn [negb]. unfold hold_time. cbn [min_on min_off with_timer with_slots with_pv].
  assert (Hwp : w <> p) by lia.
  destruct (w =? ACTIVE) eqn:Ea.
  - assert (Hmt : min_time on off w = on) by (unfold min_time; rewrite Ea; reflexivity).
    destruct (on =? 0) eqn:Eon.
    + cbn [fst slots pv timer now with_pv with_slots].
      rewrite hold_step_free by lia. rewrite expire_dead by exact Hu. cbn. auto.
    + cbn [fst slots pv timer now with_pv with_slots with_timer].
      rewrite hold_step_new by lia. rewrite Hmt. cbn [option_map fst snd live].
      rewrite set_nth_same by exact Hl1. repeat split; try reflexivity. lia.
  - destruct (w =? INACTIVE) eqn:Ei.
    + assert (Hmt : min_time on off w = off) by (unfold min_time; rewrite Ea, Ei; reflexivity).
      destruct (off =? 0) eqn:Eoff.
      * cbn [fst slots pv timer now with_pv with_slots].
        rewrite hold_step_free by lia. rewrite expire_dead by exact Hu. cbn. auto.
      * cbn [fst slots pv timer now with_pv with_slots with_timer].
        rewrite hold_step_new by lia. rewrite Hmt. cbn [option_map fst snd live].
        rewrite set_nth_same by exact Hl1. repeat split; try reflexivity. lia.
    + assert (Hmt : min_time on off w = 0) by (unfold min_time; rewrite Ea, Ei; reflexivity).
      cbn [fst slots pv timer now with_pv with_slots].
      rewrite hold_step_free by exact Hmt. rewrite expire_dead by exact Hu. cbn. auto.
Qed.

Lemma hold_tick : forall o dt g,
  monitored o = true -> length (slots o) = 16%nat -> 0 <= min_on o -> 0 <= min_off o ->
  hold_inv o g ->
  let o' := fst (tick o dt) in
  hold_inv o' (hold_step (min_on o) (min_off o) g (pv o) (pv o') (now o')).
Proof.
  intros o dt g Hm Hlen Hon Hoff [H6 [Ht Hn]]. rewrite tick_spec. cbv zeta.
  destruct g as [[v u]|]; cbn [option_map snd] in Ht; rewrite Ht.
  - destruct (u <=? now o + dt) eqn:Eu.
    + pose proof (hold_release (with_now o (now o + dt)) v u) as HR.
      destruct o as [sl d p m on off tm nw].
      unfold with_timer, with_now in *.
      cbn [slots dflt pv monitored min_on min_off timer now] in *.
      assert (Hnow : now (fst (write_spec (mkObj sl d p m on off None (nw + dt)) 6 None)) = nw + dt).
      { pose proof (write_spec_frame (mkObj sl d p m on off None (nw + dt)) 6 None) as F.
        cbv zeta in F. cbn [now] in F. apply F. }
      rewrite Hnow. apply HR; try assumption. lia.
    + destruct o as [sl d p m on off tm nw]. unfold hold_inv, slot6 in *.
      cbn [fst slots dflt pv monitored min_on min_off timer now with_now] in *.
      rewrite hold_step_same by (cbn; lia). cbn [option_map fst snd live]. repeat split; try assumption. lia.
  - destruct o as [sl d p m on off tm nw]. unfold hold_inv, slot6 in *.
    cbn [fst slots dflt pv monitored min_on min_off timer now with_now] in *.
    rewrite hold_step_same by exact I. cbn. auto.
Qed.

Lemma step_frame : forall o e,
  let o' := fst (step o e) in
  monitored o' = monitored o /\ min_on o' = min_on o /\ min_off o' = min_off o
  /\ length (slots o') = length (slots o).
Proof.
  intros o [p v|dt]; cbn [step].
  - rewrite command_spec. pose proof (write_spec_frame o (prio_index p) v) as F. cbv zeta in *. tauto.
  - rewrite tick_spec. cbv zeta. destruct (timer o) as [d|].
    + destruct (d <=? now o + dt).
      * pose proof (write_spec_frame (with_timer (with_now o (now o + dt)) None) 6 None) as F.
        cbv zeta in *. destruct o; cbn in *. tauto.
      * destruct o; cbn. auto.
    + destruct o; cbn. auto.
Qed.

(* after ANY history that leaves priority 6 alone, slot 6 and the pending release are the hold
   described by hold_after *)
Lemma hold_exact : forall es o g,
  monitored o = true -> length (slots o) = 16%nat -> 0 <= min_on o -> 0 <= min_off o ->
  no_user6 es = true -> hold_inv o g ->
  hold_inv (run o es) (hold_after o g es).
Proof.
  induction es as [|e r IH]; intros o g Hm Hlen Hon Hoff Hu Hi; [exact Hi|].
  cbn [run hold_after]. pose proof (step_frame o e) as F. cbv zeta in F.
  destruct F as [Fm [Fon [Foff Fl]]].
  apply IH; try congruence; try lia.
  - destruct e; cbn [no_user6] in Hu; [apply andb_prop in Hu; tauto | exact Hu].
  - destruct e as [p v|dt]; cbn [step].
    + cbn [no_user6] in Hu. apply andb_prop in Hu. destruct Hu as [Hp _].
      pose proof (hold_write o (prio_index p) v g Hm Hlen Hon Hoff) as W. cbv zeta in W.
      rewrite command_spec.
      assert (Hnow : now (fst (write_spec o (prio_index p) v)) = now o).
      { pose proof (write_spec_frame o (prio_index p) v) as F. cbv zeta in F. apply F. }
      rewrite Hnow. apply W; [lia | exact Hi].
    + apply hold_tick; assumption.
Qed.

(* consequences, in the words of the statement *)

(* no hold running: slot 6 is null, nothing is scheduled (so the present value, being the winner
   of the array, is the winner of the commanded slots alone) *)
Lemma hold_none : forall o, hold_inv o None -> slot6 o = Some None /\ timer o = None.
Proof. intros o [H6 [Ht _]]. auto. Qed.

(* a hold running: its state is in slot 6 and the release is scheduled at its deadline, which is
   still ahead *)
Lemma hold_some : forall o v u,
  hold_inv o (Some (v, u)) -> slot6 o = Some (Some v) /\ timer o = Some u /\ now o < u.
Proof. intros o v u [H6 [Ht Hn]]. auto. Qed.

(* a fresh object has no hold *)
Lemma hold_inv_fresh : forall d p m on off nw, hold_inv (mkObj no_slots d p m on off None nw) None.
Proof. intros. unfold hold_inv, slot6. cbn. auto. Qed.
