(* PrimDispatchFacts.v — lemmas about Tag.app_to_object (model PrimDispatch.v). *)
From Bac Require Import Base BytesFacts Tag TagFacts Prim PrimTables PrimInt PrimBits PrimFacts PrimDispatch.
From Coq Require Import ZifyBool ZifyN ZifyNat.
Ltac Zify.zify_post_hook ::= Z.to_euclidean_division_equations.
Open Scope N_scope.

Lemma base_table_bijective otb k : enum_bijective otb = true -> enum_bijective (base_table otb k) = true.
Proof. intros B. unfold base_table. destruct (k =? 12); [exact B|reflexivity]. Qed.

Lemma app_tag_class_kind v : app_tag_class (kind v) = Ok (Some (kind v)).
Proof. destruct v; reflexivity. Qed.

(* the tag number alone finds the class back: what an object of a base class encodes, app_to_object rebuilds *)
Theorem app_to_object_roundtrip otb v t :
  enum_bijective otb = true -> prim_ok (base_table otb (kind v)) v ->
  enc_app (base_table otb (kind v)) v = Ok t -> app_to_object otb t = Ok (Some v).
Proof.
  intros B V E. destruct (enc_app_shape _ _ _ E) as [C [Nm _]].
  unfold app_to_object. rewrite C, Nm, app_tag_class_kind. cbn [N.eqb negb bind].
  rewrite (roundtrip_app _ v t (base_table_bijective otb (kind v) B) V E). reflexivity.
Qed.

(* dec_app k only ever builds a value of kind k *)
Lemma lt13_cases k : k < 13 ->
  k = 0 \/ k = 1 \/ k = 2 \/ k = 3 \/ k = 4 \/ k = 5 \/ k = 6 \/ k = 7 \/ k = 8 \/ k = 9 \/ k = 10 \/ k = 11 \/ k = 12.
Proof. lia. Qed.

Lemma dec_app_kind tb k t v : dec_app tb k t = Ok v -> kind v = k.
Proof.
  unfold dec_app. destruct (negb (cls t =? 0) || negb (num t =? k)); [discriminate|].
  destruct (N.ltb_spec k 13) as [L|L].
  - destruct (lt13_cases k L) as [K|[K|[K|[K|[K|[K|[K|[K|[K|[K|[K|[K|K]]]]]]]]]]]]; subst k; cbv iota beta.
    + destruct (lenN (data t) =? 0); [|discriminate]. intros H; injection H as <-. reflexivity.
    + destruct (1 <? lvt t); [discriminate|]. intros H; injection H as <-. reflexivity.
    + destruct (lenN (data t) =? 0); [discriminate|]. intros H; injection H as <-. reflexivity.
    + destruct (dec_integer (data t)); [|discriminate]. intros H; injection H as <-. reflexivity.
    + destruct (lenN (data t) =? 4); [|discriminate]. intros H; injection H as <-. reflexivity.
    + destruct (lenN (data t) =? 8); [|discriminate]. intros H; injection H as <-. reflexivity.
    + intros H; injection H as <-. reflexivity.
    + destruct (data t) as [|e l]; [discriminate|].
      destruct ((e =? 3) && negb (utf32be_ok l)); [discriminate|].
      destruct ((e =? 4) && negb (utf16be_ok false l)); [discriminate|].
      intros H; injection H as <-. reflexivity.
    + destruct (dec_bits (data t)); [|discriminate]. intros H; injection H as <-. reflexivity.
    + destruct (lenN (data t) =? 0); [discriminate|]. intros H; injection H as <-. reflexivity.
    + destruct (data t) as [|a [|b [|c [|e [|]]]]]; try discriminate. intros H; injection H as <-. reflexivity.
    + destruct (data t) as [|a [|b [|c [|e [|]]]]]; try discriminate. intros H; injection H as <-. reflexivity.
    + destruct (lenN (data t) =? 4); [|discriminate]. intros H; injection H as <-. reflexivity.
  - destruct k as [|p]; [lia|].
    do 4 (destruct p as [p|p|]; try discriminate; try lia).
Qed.

(* what app_to_object can answer at all: an object only for an application tag numbered 0..12, and then an
   object of exactly the class that number names; nothing (None) for 13..15; a refusal otherwise *)
Theorem app_to_object_class otb t :
  match app_to_object otb t with
  | Ok (Some v) => cls t = 0 /\ num t < 13 /\ kind v = num t /\ dec_app (base_table otb (num t)) (num t) t = Ok v
  | Ok None => cls t = 0 /\ 13 <= num t < 16
  | Err e => cls t <> 0 \/ 16 <= num t \/ (num t < 13 /\ dec_app (base_table otb (num t)) (num t) t = Err e)
  end.
Proof.
  unfold app_to_object, app_tag_class.
  destruct (cls t =? 0) eqn:C; cbn [negb]; [|left; lia].
  destruct (num t <? 13) eqn:L; cbn [bind].
  - destruct (dec_app (base_table otb (num t)) (num t) t) as [v|e] eqn:D; cbn [bind].
    + repeat split; try lia. exact (dec_app_kind _ _ _ _ D).
    + right; right. split; [lia|reflexivity].
  - destruct (num t <? 16) eqn:M; cbn [bind]; [split; lia|right; left; lia].
Qed.

(* a value of a SUBCLASS (own translate table tb) seen by the generic receiver: the number on the wire is the
   number the name stands for — the base class reports the number itself *)
Theorem app_to_object_enum_number tb otb e t :
  enum_bijective tb = true -> valid_eval tb e -> enc_app tb (PEnum e) = Ok t ->
  exists n, n < 4294967296 /\ eval_num tb e = Ok (Z.of_N n) /\
            app_to_object otb t = Ok (Some (PEnum (ENum (Z.of_N n)))).
Proof.
  intros B V E. destruct (enum_shortest tb e t B V E) as [n [L [EN D]]].
  exists n. split; [exact L|]. split; [exact EN|].
  destruct (enc_app_shape _ _ _ E) as [C [Nm _]]. cbn [kind] in Nm.
  unfold app_to_object. rewrite C, Nm. cbn [N.eqb negb app_tag_class N.ltb N.compare Pos.compare Pos.compare_cont bind].
  unfold dec_app. rewrite C, Nm. cbn [N.eqb Pos.eqb negb orb]. cbv iota.
  rewrite D, spec_min_unsigned_nonempty, unbe_spec_min_unsigned. reflexivity.
Qed.

(* an object identifier of a class with its own type table tb (vendor types), seen through the stock class: same
   type NUMBER, same instance; the stock table names the number if it can *)
Theorem app_to_object_objid_number tb otb ty i t :
  enum_bijective tb = true -> valid_eval tb ty -> (0 <= i <= 4194303)%Z ->
  enc_app tb (PObjId ty i) = Ok t ->
  exists tn, tn < 1024 /\ objid_word tb ty i = Ok (Z.of_N tn * 4194304 + i)%Z /\
             app_to_object otb t = Ok (Some (PObjId (eval_of_num otb tn) i)).
Proof.
  intros B V I E. destruct (objid_layout tb ty i t B V I E) as [tn [R [W [D L]]]].
  exists (Z.to_N tn). split; [lia|]. split; [rewrite W; f_equal; lia|].
  destruct (enc_app_shape _ _ _ E) as [C [Nm _]]. cbn [kind] in Nm.
  unfold app_to_object. rewrite C, Nm. cbn [N.eqb negb app_tag_class N.ltb N.compare Pos.compare Pos.compare_cont bind].
  unfold dec_app. rewrite C, Nm. cbn [N.eqb Pos.eqb negb orb]. cbv iota.
  rewrite D. change (lenN (be4 (Z.to_N (tn * 4194304 + i))) =? 4) with true. cbv iota.
  rewrite unbe_be4 by lia. unfold objid_of_word, base_table. cbn [N.eqb Pos.eqb bind].
  do 3 f_equal.
  - f_equal. lia.
  - lia.
Qed.

(* down to the octets: what a base-class object puts on the wire, followed by anything, a generic receiver
   (Tag(pdu).app_to_object()) turns back into the same value and leaves the rest untouched *)
Theorem wire_to_object_roundtrip otb v t bs rest :
  enum_bijective otb = true -> prim_ok (base_table otb (kind v)) v ->
  enc_app (base_table otb (kind v)) v = Ok t -> bytes_ok (data t) = true -> lvt t < 4294967296 ->
  enc_tag t = Ok bs ->
  wire_to_object otb (bs ++ rest) = Ok (Some v, rest).
Proof.
  intros B V E Bs L T.
  pose proof (shape_wf (kind v) t (kind_le v) (enc_app_shape _ v t E) Bs L) as W.
  destruct (tag_roundtrip t W) as [bs' [T' D]]. rewrite T in T'. injection T' as <-.
  unfold wire_to_object. rewrite D. cbn [bind]. rewrite (app_to_object_roundtrip otb v t B V E). reflexivity.
Qed.
