(* ApciDec.v — what a successful decode yields (split from ApciHdr.v: slow case analysis). *)
From Bac Require Import Base BytesFacts Apci ApciHdr.
From Coq Require Import ZifyBool ZifyN ZifyNat.
Ltac Zify.zify_post_hook ::= Z.to_euclidean_division_equations.
Open Scope N_scope.

Ltac eat_gets_in H :=
  repeat match type of H with
  | context [get ?l] => is_var l; destruct l; cbn [get getz bind fst snd] in H
  | context [getz ?l] => is_var l; destruct l; cbn [get getz bind fst snd] in H
  end.

Ltac split_bytes B :=
  cbn [bytes_ok forallb] in B;
  repeat match type of B with (_ && _ = true) =>
    let B' := fresh "B" in apply andb_true_iff in B as [B' B] end.

Lemma wf_and a b : a = true -> b = true -> a && b = true.
Proof. intros -> ->. reflexivity. Qed.

Ltac wf_done := cbn [wf_hdr]; unfold octet, byte_ok in *;
  repeat (apply wf_and); try assumption;
  try (apply N.ltb_lt; apply codes_range); try reflexivity.

(* a successfully decoded attribute set is a well-formed typed header: exactly the attributes
   of its PDU type are present, every one within its width *)
Lemma dec_yields_header bs a r : bytes_ok bs = true -> dec_apci bs = Ok (a, r) ->
  exists h, wf_hdr h = true /\ a = to_apci h.
Proof.
  unfold dec_apci. destruct bs as [|buff t]; cbn [get bind]; [discriminate|].
  cbv zeta. intros B H.
  destruct (N.land (N.shiftr buff 4) 15 =? 0).
  { unfold bit in H. destruct (N.land buff 8 =? 0) eqn:S; cbn [truthy negb] in H;
      eat_gets_in H; try discriminate; injection H as <- _; split_bytes B.
    - eexists (ConfirmedRequest false _ _ (N.land (N.shiftr n 4) 7) (N.land n 15) n0 0 0 n1).
      split; [wf_done|reflexivity].
    - eexists (ConfirmedRequest true _ _ (N.land (N.shiftr n 4) 7) (N.land n 15) n0 n1 n2 n3).
      split; [wf_done|reflexivity]. }
  destruct (N.land (N.shiftr buff 4) 15 =? 1).
  { eat_gets_in H; try discriminate; injection H as <- _; split_bytes B.
    eexists (UnconfirmedRequest n). split; [wf_done|reflexivity]. }
  destruct (N.land (N.shiftr buff 4) 15 =? 2).
  { eat_gets_in H; try discriminate; injection H as <- _; split_bytes B.
    eexists (SimpleAck n n0). split; [wf_done|reflexivity]. }
  destruct (N.land (N.shiftr buff 4) 15 =? 3).
  { unfold bit in H. destruct (N.land buff 8 =? 0) eqn:S; cbn [truthy negb] in H;
      eat_gets_in H; try discriminate; injection H as <- _; split_bytes B.
    - eexists (ComplexAck false _ n 0 0 n0). split; [wf_done|reflexivity].
    - eexists (ComplexAck true _ n n0 n1 n2). split; [wf_done|reflexivity]. }
  destruct (N.land (N.shiftr buff 4) 15 =? 4).
  { eat_gets_in H; try discriminate; injection H as <- _; split_bytes B.
    eexists (SegmentAck _ _ n n0 n1). split; [wf_done|reflexivity]. }
  destruct (N.land (N.shiftr buff 4) 15 =? 5).
  { eat_gets_in H; try discriminate; injection H as <- _; split_bytes B.
    eexists (ErrorHdr n n0). split; [wf_done|reflexivity]. }
  destruct (N.land (N.shiftr buff 4) 15 =? 6).
  { eat_gets_in H; try discriminate; injection H as <- _; split_bytes B.
    eexists (Reject n n0). split; [wf_done|reflexivity]. }
  destruct (N.land (N.shiftr buff 4) 15 =? 7).
  { eat_gets_in H; try discriminate; injection H as <- _; split_bytes B.
    eexists (Abort _ n n0). split; [wf_done|reflexivity]. }
  discriminate.
Qed.

(* hence a decoded attribute set re-encodes, to octets that decode to the same thing: unused bits
   of the first two octets are the only information a decode / encode cycle drops *)
Lemma reencode_stable bs a r : bytes_ok bs = true -> dec_apci bs = Ok (a, r) ->
  exists bs', enc_apdu a r = Ok bs' /\ dec_apci bs' = Ok (a, r).
Proof.
  intros B D. destruct (dec_yields_header bs a r B D) as (h & W & ->).
  exists (spec20_1 h ++ r). split; [apply apdu_layout; assumption | apply hdr_decode; assumption].
Qed.
