(* ApciTypes.v — the general header lemmas (ApciHdr.v) spelled out for each of the eight PDU
   types, with the attribute set and the octets written explicitly so that the statements can
   be read against apdu.py and clause 20.1 without unfolding to_apci / spec20_1. *)
From Bac Require Import Base BytesFacts Apci ApciHdr ApciDec.
From Coq Require Import ZifyBool ZifyN ZifyNat.
Open Scope N_scope.

Ltac wf_hyps := cbn [wf_hdr]; unfold octet; repeat apply wf_and; apply N.ltb_lt; assumption.

Definition roundtrips (a : apci) (hdr_octets : list N) : Prop :=
  forall payload, enc_apdu a payload = Ok (hdr_octets ++ payload) /\
                  dec_apci (hdr_octets ++ payload) = Ok (a, payload).

Lemma roundtrips_of h : wf_hdr h = true -> roundtrips (to_apci h) (spec20_1 h).
Proof. intros W p. split; [apply apdu_layout | apply hdr_decode]; assumption. Qed.

(* 20.1.2 BACnet-Confirmed-Request-PDU *)
Definition confirmed_request_attrs seg mor sa ms mr inv sq wn svc : apci :=
  mkApci (Some 0%Z) (Some seg) (Some mor) (Some sa) None None
         (if seg then zo sq else None) (if seg then zo wn else None)
         (zo ms) (zo mr) (zo svc) (zo inv) None.
Definition confirmed_request_octets (seg mor sa : bool) ms mr inv sq wn svc : list N :=
  [8 * b2n seg + 4 * b2n mor + 2 * b2n sa; 16 * ms + mr; inv] ++ (if seg then [sq; wn] else []) ++ [svc].

Lemma roundtrip_confirmed_request seg mor sa ms mr inv sq wn svc :
  ms < 8 -> mr < 16 -> inv < 256 -> sq < 256 -> wn < 256 -> svc < 256 ->
  roundtrips (confirmed_request_attrs seg mor sa ms mr inv sq wn svc)
             (confirmed_request_octets seg mor sa ms mr inv sq wn svc).
Proof. intros. apply (roundtrips_of (ConfirmedRequest seg mor sa ms mr inv sq wn svc)). wf_hyps. Qed.

Lemma layout_confirmed_request seg mor sa ms mr inv sq wn svc :
  ms < 8 -> mr < 16 -> inv < 256 -> sq < 256 -> wn < 256 -> svc < 256 ->
  enc_apci (confirmed_request_attrs seg mor sa ms mr inv sq wn svc)
  = Ok (confirmed_request_octets seg mor sa ms mr inv sq wn svc).
Proof. intros. apply (hdr_layout (ConfirmedRequest seg mor sa ms mr inv sq wn svc)). wf_hyps. Qed.

(* 20.1.3 BACnet-Unconfirmed-Request-PDU *)
Definition unconfirmed_request_attrs svc : apci :=
  mkApci (Some 1%Z) None None None None None None None None None (zo svc) None None.

Lemma roundtrip_unconfirmed_request svc : svc < 256 ->
  roundtrips (unconfirmed_request_attrs svc) [16; svc].
Proof. intros. apply (roundtrips_of (UnconfirmedRequest svc)). wf_hyps. Qed.
Lemma layout_unconfirmed_request svc : svc < 256 ->
  enc_apci (unconfirmed_request_attrs svc) = Ok [16; svc].
Proof. intros. apply (hdr_layout (UnconfirmedRequest svc)). wf_hyps. Qed.

(* 20.1.4 BACnet-SimpleACK-PDU *)
Definition simple_ack_attrs inv svc : apci :=
  mkApci (Some 2%Z) None None None None None None None None None (zo svc) (zo inv) None.

Lemma roundtrip_simple_ack inv svc : inv < 256 -> svc < 256 ->
  roundtrips (simple_ack_attrs inv svc) [32; inv; svc].
Proof. intros. apply (roundtrips_of (SimpleAck inv svc)). wf_hyps. Qed.
Lemma layout_simple_ack inv svc : inv < 256 -> svc < 256 ->
  enc_apci (simple_ack_attrs inv svc) = Ok [32; inv; svc].
Proof. intros. apply (hdr_layout (SimpleAck inv svc)). wf_hyps. Qed.

(* 20.1.5 BACnet-ComplexACK-PDU *)
Definition complex_ack_attrs seg mor inv sq wn svc : apci :=
  mkApci (Some 3%Z) (Some seg) (Some mor) None None None
         (if seg then zo sq else None) (if seg then zo wn else None) None None (zo svc) (zo inv) None.
Definition complex_ack_octets (seg mor : bool) inv sq wn svc : list N :=
  [48 + 8 * b2n seg + 4 * b2n mor; inv] ++ (if seg then [sq; wn] else []) ++ [svc].

Lemma roundtrip_complex_ack seg mor inv sq wn svc :
  inv < 256 -> sq < 256 -> wn < 256 -> svc < 256 ->
  roundtrips (complex_ack_attrs seg mor inv sq wn svc) (complex_ack_octets seg mor inv sq wn svc).
Proof. intros. apply (roundtrips_of (ComplexAck seg mor inv sq wn svc)). wf_hyps. Qed.
Lemma layout_complex_ack seg mor inv sq wn svc :
  inv < 256 -> sq < 256 -> wn < 256 -> svc < 256 ->
  enc_apci (complex_ack_attrs seg mor inv sq wn svc) = Ok (complex_ack_octets seg mor inv sq wn svc).
Proof. intros. apply (hdr_layout (ComplexAck seg mor inv sq wn svc)). wf_hyps. Qed.

(* 20.1.6 BACnet-SegmentACK-PDU *)
Definition segment_ack_attrs nak srv inv sq wn : apci :=
  mkApci (Some 4%Z) None None None (Some srv) (Some nak) (zo sq) (zo wn) None None None (zo inv) None.

Lemma roundtrip_segment_ack nak srv inv sq wn : inv < 256 -> sq < 256 -> wn < 256 ->
  roundtrips (segment_ack_attrs nak srv inv sq wn) [64 + 2 * b2n nak + b2n srv; inv; sq; wn].
Proof. intros. apply (roundtrips_of (SegmentAck nak srv inv sq wn)). wf_hyps. Qed.
Lemma layout_segment_ack nak srv inv sq wn : inv < 256 -> sq < 256 -> wn < 256 ->
  enc_apci (segment_ack_attrs nak srv inv sq wn) = Ok [64 + 2 * b2n nak + b2n srv; inv; sq; wn].
Proof. intros. apply (hdr_layout (SegmentAck nak srv inv sq wn)). wf_hyps. Qed.

(* 20.1.7 BACnet-Error-PDU *)
Definition error_attrs inv svc : apci :=
  mkApci (Some 5%Z) None None None None None None None None None (zo svc) (zo inv) None.

Lemma roundtrip_error inv svc : inv < 256 -> svc < 256 ->
  roundtrips (error_attrs inv svc) [80; inv; svc].
Proof. intros. apply (roundtrips_of (ErrorHdr inv svc)). wf_hyps. Qed.
Lemma layout_error inv svc : inv < 256 -> svc < 256 ->
  enc_apci (error_attrs inv svc) = Ok [80; inv; svc].
Proof. intros. apply (hdr_layout (ErrorHdr inv svc)). wf_hyps. Qed.

(* 20.1.8 BACnet-Reject-PDU *)
Definition reject_attrs inv rsn : apci :=
  mkApci (Some 6%Z) None None None None None None None None None None (zo inv) (zo rsn).

Lemma roundtrip_reject inv rsn : inv < 256 -> rsn < 256 ->
  roundtrips (reject_attrs inv rsn) [96; inv; rsn].
Proof. intros. apply (roundtrips_of (Reject inv rsn)). wf_hyps. Qed.
Lemma layout_reject inv rsn : inv < 256 -> rsn < 256 ->
  enc_apci (reject_attrs inv rsn) = Ok [96; inv; rsn].
Proof. intros. apply (hdr_layout (Reject inv rsn)). wf_hyps. Qed.

(* 20.1.9 BACnet-Abort-PDU *)
Definition abort_attrs srv inv rsn : apci :=
  mkApci (Some 7%Z) None None None (Some srv) None None None None None None (zo inv) (zo rsn).

Lemma roundtrip_abort srv inv rsn : inv < 256 -> rsn < 256 ->
  roundtrips (abort_attrs srv inv rsn) [112 + b2n srv; inv; rsn].
Proof. intros. apply (roundtrips_of (Abort srv inv rsn)). wf_hyps. Qed.
Lemma layout_abort srv inv rsn : inv < 256 -> rsn < 256 ->
  enc_apci (abort_attrs srv inv rsn) = Ok [112 + b2n srv; inv; rsn].
Proof. intros. apply (hdr_layout (Abort srv inv rsn)). wf_hyps. Qed.
