(* TagGenFacts.v — the definitions that translator/gen_tagfns.py regenerates from primitivedata.py on
   every run (BacGen.TagFns) are, for all inputs, equal to the hand model of Tag.v; the model's theorems
   are then restated on the generated functions.  The scripts do not mention generated variable names:
   they unfold, case-split on every `if` / input-list shape, and compare the leaves. *)
From Bac Require Import Base BytesFacts Tag TagHdr TagFacts PyLoops.
From BacGen Require Import TagFns.
From Coq Require Import ZifyBool ZifyN ZifyNat.
Ltac Zify.zify_post_hook ::= Z.to_euclidean_division_equations.
Open Scope N_scope.

(* Python's bit operators on naturals = the model's div/mod *)
Lemma land_1 a : N.land a 1 = a mod 2.
Proof. exact (N.land_ones a 1). Qed.
Lemma land_7 a : N.land a 7 = a mod 8.
Proof. exact (N.land_ones a 3). Qed.
Lemma shiftr_3 a : N.shiftr a 3 = a / 8.
Proof. rewrite N.shiftr_div_pow2. reflexivity. Qed.
Lemma shiftr_4 a : N.shiftr a 4 = a / 16.
Proof. rewrite N.shiftr_div_pow2. reflexivity. Qed.
Lemma shiftl_4 a : N.shiftl a 4 = a * 16.
Proof. rewrite N.shiftl_mul_pow2. reflexivity. Qed.

Ltac bitops := rewrite ?land_1, ?land_7, ?shiftr_3, ?shiftr_4, ?shiftl_4.
Ltac split_if :=
  match goal with
  | |- context [if ?b then _ else _] => let E := fresh "E" in destruct b eqn:E; try lia
  end.
Ltac split_get :=
  match goal with
  | |- context [get ?l] => is_var l; destruct l
  | |- context [get_short ?l] => is_var l; destruct l as [|? [|? ?]]
  | |- context [get_long ?l] => is_var l; destruct l as [|? [|? [|? [|? ?]]]]
  | |- context [get_data ?k ?l] => destruct (get_data k l) as [[? ?]|?]
  end.
Ltac step := cbn beta iota zeta delta [bind app fst snd get get_short get_long]; bitops.
Ltac crunch := repeat (step; first [split_if | split_get]); step.

(* ---- Tag.encode *)
Lemma gen_Tag_encode_eq t pdu : gen_Tag_encode t pdu = do bs <- enc_tag t; Ok (pdu ++ bs).
Proof.
  destruct t as [c n l d].
  unfold gen_Tag_encode, enc_tag, len_escape, class_bits, put; cbn [cls num lvt data].
  crunch; try reflexivity;
    f_equal; rewrite <- ?app_assoc; cbn [app]; repeat f_equal; lia.
Qed.

Lemma gen_Tag_encode_nil t : gen_Tag_encode t [] = enc_tag t.
Proof. rewrite gen_Tag_encode_eq. destruct (enc_tag t); reflexivity. Qed.

(* ---- Tag.decode *)
Lemma gen_Tag_decode_eq bs : gen_Tag_decode bs = dec_tag bs.
Proof.
  unfold gen_Tag_decode, dec_tag, dec_tag_raw.
  crunch; try reflexivity;
    try (match goal with e : err |- _ => destruct e; reflexivity end);
    repeat f_equal; lia.
Qed.

(* ---- TagList.encode: a fold of the element encoder *)
Lemma for_each_enc (F : tag -> list N -> res (list N)) :
  (forall t p, F t p = do bs <- enc_tag t; Ok (p ++ bs)) ->
  forall ts p, for_each F ts p = do bs <- enc_tags ts; Ok (p ++ bs).
Proof.
  intros HF. induction ts as [|t ts IH]; intros p; cbn [for_each enc_tags bind].
  - now rewrite app_nil_r.
  - rewrite HF. destruct (enc_tag t) as [a|]; cbn [bind]; [|reflexivity].
    rewrite IH. destruct (enc_tags ts) as [b|]; cbn [bind]; [|reflexivity].
    now rewrite app_assoc.
Qed.

Lemma gen_TagList_encode_eq ts pdu : gen_TagList_encode ts pdu = do bs <- enc_tags ts; Ok (pdu ++ bs).
Proof.
  unfold gen_TagList_encode. erewrite for_each_enc.
  - destruct (enc_tags ts); reflexivity.
  - intros t p. cbn beta. rewrite gen_Tag_encode_eq. destruct (enc_tag t); reflexivity.
Qed.

Lemma gen_TagList_encode_nil ts : gen_TagList_encode ts [] = enc_tags ts.
Proof. rewrite gen_TagList_encode_eq. destruct (enc_tags ts); reflexivity. Qed.

(* ---- TagList.decode: the while loop is the fuelled recursion of the model *)
Lemma while_dec (C : list tag * list N -> bool) (B : list tag * list N -> res (list tag * list N)) :
  (forall acc bs, C (acc, bs) = nonempty bs) ->
  (forall acc bs, B (acc, bs) = do (t, r) <- dec_tag bs; Ok (acc ++ [t], r)) ->
  forall f acc bs, while_fuel f C B (acc, bs) = do ts <- dec_tags_fuel f bs; Ok (acc ++ ts, []).
Proof.
  intros HC HB. induction f as [|f IH]; intros acc bs; cbn [while_fuel dec_tags_fuel]; rewrite HC;
    destruct bs as [|b bs]; cbn [nonempty bind]; rewrite ?app_nil_r; try reflexivity.
  rewrite HB. destruct (dec_tag (b :: bs)) as [[t r]|e]; cbn [bind]; [|reflexivity].
  rewrite IH. destruct (dec_tags_fuel f r); cbn [bind]; [|reflexivity].
  now rewrite <- app_assoc.
Qed.

Lemma gen_TagList_decode_eq acc bs :
  gen_TagList_decode acc bs = do ts <- dec_tags bs; Ok (acc ++ ts, []).
Proof.
  unfold gen_TagList_decode, dec_tags. cbn zeta. erewrite while_dec.
  - destruct (dec_tags_fuel (length bs) bs); reflexivity.
  - intros; reflexivity.
  - intros a b. cbn beta iota. rewrite gen_Tag_decode_eq. destruct (dec_tag b) as [[? ?]|?]; reflexivity.
Qed.

Lemma gen_TagList_decode_nil bs : gen_TagList_decode [] bs = do ts <- dec_tags bs; Ok (ts, []).
Proof. apply gen_TagList_decode_eq. Qed.

(* ---- the property theorems, restated on the generated (= translated) functions *)
Theorem gen_tag_roundtrip t : wf_tag t = true ->
  exists bs, gen_Tag_encode t [] = Ok bs /\ forall rest, gen_Tag_decode (bs ++ rest) = Ok (t, rest).
Proof.
  intros W. destruct (tag_roundtrip t W) as [bs [H1 H2]]. exists bs. rewrite gen_Tag_encode_nil. split; [exact H1|].
  intros rest. rewrite gen_Tag_decode_eq. apply H2.
Qed.

Theorem gen_list_roundtrip ts : forallb wf_tag ts = true ->
  exists bs, gen_TagList_encode ts [] = Ok bs /\ gen_TagList_decode [] bs = Ok (ts, []).
Proof.
  intros W. destruct (list_roundtrip ts W) as [bs [H1 H2]]. exists bs.
  rewrite gen_TagList_encode_nil, gen_TagList_decode_nil, H2. split; [exact H1|reflexivity].
Qed.

Theorem gen_canonical_header t : wf_tag t = true -> gen_Tag_encode t [] = Ok (spec_header t ++ data t).
Proof. intros W. rewrite gen_Tag_encode_nil. now apply enc_tag_spec. Qed.

Theorem gen_decode_total bs :
  (exists ts, gen_TagList_decode [] bs = Ok (ts, [])) \/ gen_TagList_decode [] bs = Err InvalidTag.
Proof.
  rewrite gen_TagList_decode_nil. destruct (decode_total bs) as [[ts H]|H]; rewrite H; cbn [bind].
  - left. now exists ts.
  - now right.
Qed.

Theorem gen_no_overread bs t r : gen_Tag_decode bs = Ok (t, r) ->
  exists h, bs = h ++ data t ++ r /\ (1 <= length h <= 7)%nat.
Proof. rewrite gen_Tag_decode_eq. apply dec_tag_shape. Qed.

Theorem gen_reencode_stable bs ts : bytes_ok bs = true -> gen_TagList_decode [] bs = Ok (ts, []) ->
  exists bs', gen_TagList_encode ts [] = Ok bs' /\ gen_TagList_decode [] bs' = Ok (ts, []).
Proof.
  intros B. rewrite gen_TagList_decode_nil. destruct (dec_tags bs) as [ts'|e] eqn:D; cbn [bind]; [|discriminate].
  intros H. injection H as <-. destruct (reencode_stable bs ts' B D) as [bs' [H1 H2]]. exists bs'.
  rewrite gen_TagList_encode_nil, gen_TagList_decode_nil, H2. split; [exact H1|reflexivity].
Qed.

(* refusal: a tag number that does not fit the extended-number octet is never encoded *)
Lemma enc_tag_refuses_number t : 256 <= num t -> enc_tag t = Err ValueErr.
Proof.
  destruct t as [c n l d]. unfold enc_tag, len_escape, class_bits, put; cbn [cls num lvt data]. intros H.
  crunch; reflexivity.
Qed.

Theorem gen_encode_refuses_number t pdu : 256 <= num t -> gen_Tag_encode t pdu = Err ValueErr.
Proof. intros H. rewrite gen_Tag_encode_eq, (enc_tag_refuses_number t H). reflexivity. Qed.
