(* C03 — placeholder, theorems follow *)
From Bac Require Import Base.
From Bac Require Import Tag.
From Bac Require Import Schema.
From Bac Require Import Codec.
From Bac Require Import CodecFacts.
From Bac Require Import SchemaTables.
