(* C03 — placeholder, theorems follow *)
From Bac Require Import Base Tag Schema Codec CodecFacts SchemaTables.
