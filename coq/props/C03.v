(* C03 — every service PDU and constructed type round-trips.
   Property theorems only; proofs live in Bac.CodecFacts (generic codec) and Bac.SchemaTables
   (obligations about the tables translated from apdu.py / basetypes.py into BacGen.Schemas). *)
From Coq Require Import String.
From Bac Require Import Base.
From Bac Require Import Tag.
From Bac Require Import TagFacts.
From Bac Require Import Schema.
From Bac Require Import Codec.
From Bac Require Import CodecFacts.
From Bac Require Import CodecWf.
From Bac Require Import CodecTotal.
From Bac Require Import SchemaTables.
From Bac Require Import ArrayObj.
From Bac Require Import ArrayObjFacts.
From BacGen Require Import Schemas.
Open Scope N_scope.

(* Round trip of the schema-driven codec, for EVERY schema in the supported fragment that passes the
   determinism check, every value of it (any presence pattern, alternative, list length, nesting
   depth), in front of any continuation the enclosing construct may put there.
   Round 2: `supported` now contains optional lists, un-contexted optional constructs decoded by
   try / roll-back, NameValue, ArrayOf and choices that have an undecodable alternative; ALL 227 translated
   definitions are supported (C03_supported_or_listed).
   _partial only because has_ty (a value may choose an alternative only if Choice.decode can reach and
   select it: sup_alt for it and for every alternative before it) excludes the values of finding C03-K1,
   for which the statement is false (C03_unctx_alternative_refuted). *)
Theorem C03_roundtrip_partial : forall t, supported t = true -> wf_ty t = true ->
  forall v ts rest, has_ty t v -> encode t v = Ok ts -> rest_ok (avoid t) rest ->
  decode t (ts ++ rest) = Ok (v, rest).
Proof. exact roundtrip. Qed.
Print Assumptions C03_roundtrip_partial.

(* through APCISequence and the tag codec (C02) down to octets, and back to identical octets.
   val_wf v: the leaf tags and the tags inside Any values are well-formed tags (octets < 256, length
   field = number of data octets); the well-formedness of everything the encoder adds (context
   re-tagging, opening / closing tags) is derived (CodecWf.encode_tags_wf). *)
Theorem C03_pdu_roundtrip : forall els,
  supported (TSeq els) = true -> wf_ty (TSeq els) = true ->
  forall v, has_ty (TSeq els) v -> val_wf v ->
  exists bs, encode_pdu (TSeq els) v = Ok bs /\ decode_pdu (TSeq els) bs = Ok v /\
             forall v', decode_pdu (TSeq els) bs = Ok v' -> encode_pdu (TSeq els) v' = Ok bs.
Proof. exact pdu_roundtrip_total. Qed.
Print Assumptions C03_pdu_roundtrip.

(* the encoder only emits well-formed tags *)
Theorem C03_encode_tags_wf : forall t, wf_ty t = true -> forall v ts,
  has_ty t v -> val_wf v -> encode t v = Ok ts -> forallb wf_tag ts = true.
Proof. exact encode_tags_wf. Qed.
Print Assumptions C03_encode_tags_wf.

Theorem C03_reencode_identical : forall t, supported t = true -> wf_ty t = true ->
  forall v ts rest v' rest', has_ty t v -> encode t v = Ok ts -> rest_ok (avoid t) rest ->
  decode t (ts ++ rest) = Ok (v', rest') -> rest' = rest /\ encode t v' = Ok ts.
Proof. exact reencode_identical. Qed.
Print Assumptions C03_reencode_identical.

(* APCISequence.decode: a tag left over after a complete PDU is TooManyArguments *)
Theorem C03_trailing_refused : forall els, supported (TSeq els) = true -> wf_ty (TSeq els) = true ->
  forall v ts x bs, has_ty (TSeq els) v -> encode (TSeq els) v = Ok ts ->
  rest_ok (avoid (TSeq els)) [x] -> dec_tags bs = Ok (ts ++ [x]) ->
  decode_pdu (TSeq els) bs = Err TooManyArguments.
Proof. exact pdu_trailing_refused. Qed.
Print Assumptions C03_trailing_refused.

(* the encoder never refuses a well-typed value (any schema) *)
Theorem C03_encode_total : forall t v, has_ty t v -> exists ts, encode t v = Ok ts.
Proof. exact encode_total. Qed.
Print Assumptions C03_encode_total.

(* the decoder on ARBITRARY (hostile) tag lists, for every wf_ty schema: it returns a value and a suffix of
   its input, or fails with one of the listed exception classes (dec_err: DecodingError, InvalidTag,
   MissingRequired, InvalidParameterDatatype, ValueErr, IndexErr, AttrErr, StructErr, UnicodeErr,
   RuntimeErr, OtherErr) — in particular the list loops never run out of fuel: the Python loops terminate *)
Theorem C03_decode_total : forall t, wf_ty t = true -> forall ts,
  (exists v ts', decode t ts = Ok (v, ts') /\ exists pre, ts = pre ++ ts')
  \/ (exists e, decode t ts = Err e /\ dec_err e = true).
Proof. exact decode_total. Qed.
Print Assumptions C03_decode_total.

Theorem C03_fuel_enough : forall t, wf_ty t = true -> forall ts, decode t ts <> Err OutOfFuel.
Proof. exact decode_fuel_enough. Qed.
Print Assumptions C03_fuel_enough.

(* arbitrary octets through APCISequence.decode: a value, a listed class (InvalidTag for bad framing), or
   TooManyArguments *)
Theorem C03_decode_pdu_total : forall els, wf_ty (TSeq els) = true -> forall bs,
  (exists v, decode_pdu (TSeq els) bs = Ok v)
  \/ (exists e, decode_pdu (TSeq els) bs = Err e /\ (dec_err e = true \/ e = TooManyArguments)).
Proof. exact decode_pdu_total. Qed.
Print Assumptions C03_decode_pdu_total.

(* Any.cast_out(type) on what the encoder produced gives the value back.  cast_out and decode are functions of
   the tag list in the model — they cannot disturb it; what ties this to the implementation is the correspondence
   history "cast_out twice, then read Any.tagList", compared with (result, result, the unchanged input). *)
Theorem C03_cast_out_roundtrip : forall t, supported t = true -> wf_ty t = true ->
  forall v ts, has_ty t v -> encode t v = Ok ts -> cast_out t ts = Ok v.
Proof. exact cast_out_roundtrip. Qed.
Print Assumptions C03_cast_out_roundtrip.

(* table obligations (re-checked by make against the tables translated on this run) *)
Theorem C03_all_wf : forallb wf_ty all_types = true.
Proof. exact SchemaTables.C03_all_wf. Qed.
Print Assumptions C03_all_wf.

Theorem C03_supported_or_listed : forall n t, In (n, t) all_named -> supported t = true.
Proof.
  intros n t H. apply all_types_supported. unfold all_types. apply in_map_iff. exists (n, t). auto.
Qed.
Print Assumptions C03_supported_or_listed.

(* hence: every registered PDU and every base type round-trips (values as delimited by has_ty) *)
Theorem C03_tables_roundtrip : forall n t, In (n, t) all_named ->
  forall v ts rest, has_ty t v -> encode t v = Ok ts -> rest_ok (avoid t) rest ->
  decode t (ts ++ rest) = Ok (v, rest).
Proof. exact tables_roundtrip. Qed.
Print Assumptions C03_tables_roundtrip.

(* fixed defect C03-F3: a required, un-contexted, empty list in front of a closing tag *)
Theorem C03_empty_list_before_closing : forall s c x r, cls x = 3 ->
  dec_el decode (El (TSeqOf s) c false) (x :: r) = Ok (Some (VList []), x :: r)
  /\ dec_el decode (El (TSeqOf s) c false) [] = Ok (Some (VList []), []).
Proof. exact empty_list_before_closing. Qed.
Print Assumptions C03_empty_list_before_closing.

(* known finding C03-K1: whatever the tag, Choice.decode raises NotImplementedError once it reaches a
   constructed alternative without context tag ... *)
Theorem C03_unctx_alternative_refused : forall pre t o post x rest,
  forallb (fun e => match e with El (TAtom k) _ _ => k <=? 12 | _ => false end) pre = true ->
  is_atomic t = false ->
  pmatch_any (flat_map first_el pre) x = false ->
  dec_alts decode (pre ++ El t None o :: post) 0 x rest = Err RuntimeErr.
Proof. exact unctx_alternative_refused. Qed.
Print Assumptions C03_unctx_alternative_refused.

(* ... so the full statement is false of the pinned tables: this value of
   NotificationParametersExtendedParametersType is encoded and cannot be decoded *)
Definition k1_value : val :=
  VChoice 8 (VSeq [Some (VAtom (mkTag 0 12 4 [2;0;0;1])); Some (VAtom (mkTag 0 12 4 [0;0;0;5]));
                   Some (VAtom (mkTag 0 9 1 [85])); None; Some (VTags [mkTag 0 4 4 [66;144;0;0]])]).
Theorem C03_unctx_alternative_refuted :
  exists ts, encode T_NotificationParametersExtendedParametersType k1_value = Ok ts /\
             decode T_NotificationParametersExtendedParametersType ts = Err RuntimeErr.
Proof. eexists. split; vm_compute; reflexivity. Qed.
Print Assumptions C03_unctx_alternative_refuted.

(* worked examples in the style of Annex F (clause 20 hand encodings; the standard's text is not
   available offline — the harness checks the same octets against the implementation and against an
   independent hand encoder).  _partial: these vectors, not all of Annex F. *)
Definition ex_readproperty : val :=      (* ReadProperty(analog-input 5, present-value) *)
  VSeq [Some (VAtom (mkTag 0 12 4 [0;0;0;5])); Some (VAtom (mkTag 0 9 1 [85])); None].
Definition ex_readproperty_ack : val :=  (* ... = REAL 72.3 *)
  VSeq [Some (VAtom (mkTag 0 12 4 [0;0;0;5])); Some (VAtom (mkTag 0 9 1 [85])); None;
        Some (VTags [mkTag 0 4 4 [66;144;153;154]])].
Definition ex_writeproperty : val :=     (* WriteProperty(analog-value 1, present-value, REAL 180.0) *)
  VSeq [Some (VAtom (mkTag 0 12 4 [0;128;0;1])); Some (VAtom (mkTag 0 9 1 [85])); None;
        Some (VTags [mkTag 0 4 4 [67;52;0;0]]); None].
Definition ex_whois : val :=             (* Who-Is 3..3 *)
  VSeq [Some (VAtom (mkTag 0 2 1 [3])); Some (VAtom (mkTag 0 2 1 [3]))].
Definition ex_iam : val :=               (* I-Am device 3, max-APDU 1024, segmentation none (3), vendor 99 *)
  VSeq [Some (VAtom (mkTag 0 12 4 [2;0;0;3])); Some (VAtom (mkTag 0 2 2 [4;0]));
        Some (VAtom (mkTag 0 9 1 [3])); Some (VAtom (mkTag 0 2 1 [99]))].
Definition ex_subscribecov : val :=      (* SubscribeCOV(process 18, analog-input 10, confirmed, lifetime 0) *)
  VSeq [Some (VAtom (mkTag 0 2 1 [18])); Some (VAtom (mkTag 0 12 4 [0;0;0;10]));
        Some (VAtom (mkTag 0 1 1 [])); Some (VAtom (mkTag 0 2 1 [0]))].
Definition ex_atomicreadfile_ack0 : val := (* AtomicReadFile-ACK, record access, start 0, zero records *)
  VSeq [Some (VAtom (mkTag 0 1 1 []));
        Some (VChoice 1 (VSeq [Some (VAtom (mkTag 0 3 1 [0])); Some (VAtom (mkTag 0 2 1 [0])); Some (VList [])]))].

Definition vector_ok (t : ty) (v : val) (bs : list N) : bool :=
  match encode_pdu t v, decode_pdu t bs with
  | Ok e, Ok d => list_eqb N.eqb e bs && list_eqb Z.eqb (canon_val d) (canon_val v)
                  && match encode_pdu t d with Ok e' => list_eqb N.eqb e' bs | _ => false end
  | _, _ => false
  end.
Theorem C03_annexF_partial :
  vector_ok T_ReadPropertyRequest ex_readproperty [12;0;0;0;5;25;85] = true /\
  vector_ok T_ReadPropertyACK ex_readproperty_ack [12;0;0;0;5;25;85;62;68;66;144;153;154;63] = true /\
  vector_ok T_WritePropertyRequest ex_writeproperty [12;0;128;0;1;25;85;62;68;67;52;0;0;63] = true /\
  vector_ok T_WhoIsRequest ex_whois [9;3;25;3] = true /\
  vector_ok T_IAmRequest ex_iam [196;2;0;0;3;34;4;0;145;3;33;99] = true /\
  vector_ok T_SubscribeCOVRequest ex_subscribecov [9;18;28;0;0;0;10;41;1;57;0] = true /\
  vector_ok T_AtomicReadFileACK ex_atomicreadfile_ack0 [17;30;49;0;33;0;31] = true.
Proof. vm_compute. repeat split. Qed.
Print Assumptions C03_annexF_partial.

(* ---------- non-vacuity ---------- *)
(* the hypotheses of the round trip are met by concrete values of real tables *)
Example C03_supported_examples :
  forallb (fun t => supported t && wf_ty t)
    [T_ReadPropertyRequest; T_ReadPropertyACK; T_WritePropertyMultipleRequest; T_AtomicReadFileACK;
     T_EventParameter; T_LogData; T_PropertyStates; T_ReadAccessResult] = true.
Proof. vm_compute. reflexivity. Qed.

Example C03_has_ty_readproperty : has_ty T_ReadPropertyRequest ex_readproperty.
Proof. cbn. repeat split; try (vm_compute; reflexivity); try lia. Qed.

Example C03_has_ty_atomicreadfile_ack0 : has_ty T_AtomicReadFileACK ex_atomicreadfile_ack0.
Proof. cbn. repeat split; try (vm_compute; reflexivity); try lia; constructor. Qed.

Example C03_val_wf_readproperty : val_wf ex_readproperty /\ val_wf ex_atomicreadfile_ack0.
Proof. cbn. repeat split; vm_compute; reflexivity. Qed.

Example C03_rest_ok_example : rest_ok (avoid T_ReadPropertyRequest) [mkTag 0 2 1 [7]] /\
                              rest_ok (avoid T_ReadAccessResult) [close_tag 3].
Proof. split; cbn; auto. Qed.

Example C03_instance :   (* the theorem applied: ReadProperty followed by an application tag *)
  decode T_ReadPropertyRequest
    ([mkTag 1 0 4 [0;0;0;5]; mkTag 1 1 1 [85]] ++ [mkTag 0 2 1 [7]]) = Ok (ex_readproperty, [mkTag 0 2 1 [7]]).
Proof.
  apply C03_roundtrip_partial; try (vm_compute; reflexivity).
  - exact C03_has_ty_readproperty.
  - exact (proj1 C03_rest_ok_example).
Qed.

(* round 2: the definitions that were outside the supported fragment *)
Example C03_supported_round2 :
  forallb (fun t => supported t && wf_ty t)
    [T_WhoHasRequest; T_ReadRangeRequest; T_CreateObjectRequest; T_VTCloseError; T_NameValue;
     T_NameValueCollection; T_NotificationParameters; T_ConfirmedEventNotificationRequest;
     T_UnconfirmedEventNotificationRequest; T_EventNotificationParameters] = true.
Proof. vm_compute. reflexivity. Qed.

Definition ex_whohas : val :=   (* Who-Has, no limits (the un-contexted optional WhoHasLimits is absent), object name "x" *)
  VSeq [None; Some (VChoice 1 (VAtom (mkTag 0 7 2 [0;120])))].
Example C03_has_ty_whohas : has_ty T_WhoHasRequest ex_whohas.
Proof. cbn. repeat split; try (vm_compute; reflexivity); try lia. Qed.
Example C03_instance_rollback :   (* the try / roll-back path, through the theorem *)
  decode T_WhoHasRequest ([mkTag 1 3 2 [0;120]] ++ []) = Ok (ex_whohas, []).
Proof.
  apply C03_roundtrip_partial; try (vm_compute; reflexivity); try exact I.
  exact C03_has_ty_whohas.
Qed.

Definition ex_namevalue : val :=  (* NameValue "x" with a DateTime value *)
  VSeq [Some (VAtom (mkTag 0 7 2 [0;120]));
        Some (VSeq [Some (VAtom (mkTag 0 10 4 [92;11;17;2])); Some (VAtom (mkTag 0 11 4 [22;45;30;70]))])].
Example C03_has_ty_namevalue : has_ty T_NameValue ex_namevalue.
Proof. cbn. repeat split; try (vm_compute; reflexivity); try lia. Qed.

Example C03_hostile_input :   (* totality on garbage: a lone closing tag, an unmatched opening tag *)
  decode T_ReadPropertyMultipleACK [mkTag 3 1 0 []] = Ok (VSeq [Some (VList [])], [mkTag 3 1 0 []]) /\
  decode T_ReadAccessResult [mkTag 1 0 4 [0;0;0;1]; mkTag 2 1 0 []; mkTag 2 9 0 []] = Err InvalidTag.
Proof. split; vm_compute; reflexivity. Qed.

Definition canon_val_len (r : res val) : option nat :=
  match r with Ok (VList vs) => Some (length vs) | _ => None end.

(* a list keeps every one of its entries, equal ones included (multiplicity is part of the round trip):
   three equal Unsigned, and Real 0.0 / -0.0 / 0.0 *)
Example C03_list_keeps_duplicates :
  cast_out (TSeqOf (TAtom 2)) [mkTag 0 2 1 [7]; mkTag 0 2 1 [7]; mkTag 0 2 1 [7]]
    = Ok (VList [VAtom (mkTag 0 2 1 [7]); VAtom (mkTag 0 2 1 [7]); VAtom (mkTag 0 2 1 [7])]) /\
  canon_val_len (cast_out (TSeqOf (TAtom 4))
    [mkTag 0 4 4 [0;0;0;0]; mkTag 0 4 4 [128;0;0;0]; mkTag 0 4 4 [0;0;0;0]]) = Some 3%nat.
Proof. split; vm_compute; reflexivity. Qed.


(* ---------- the ArrayOf OBJECT (wave 6): self.value = [count, e1, ..., en] ---------- *)
(* the representation invariant arr_ok (cell 0 = the number of element cells, every other cell an element) is
   established by the constructor — and a constructor given a list holds exactly that list — ... *)
Theorem C03_array_new_invariant : forall fixed dflt init a, arr_new fixed dflt init = Ok a ->
  arr_ok a /\ (forall n, fixed = Some n -> count_of a = Ok n) /\ (forall vs, init = Some vs -> a = arr_of vs).
Proof. exact arr_new_ok. Qed.
Print Assumptions C03_array_new_invariant.

(* ... and kept by every accepted call of append / __setitem__(0, n) (fix_length) / __setitem__(i, v) /
   __delitem__ / decode, for every subtype, fixed or free length, any arguments (a refused call leaves the
   object alone: arr_run), so after ANY history the count equals the number of elements the iterator, the
   encoder and Any.cast_out see *)
Theorem C03_array_invariant : forall s fixed dflt ops a, arr_ok a ->
  let a' := snd (arr_run s fixed dflt ops a) in
  arr_ok a' /\ exists vs, arr_items a' = Ok vs /\ count_of a' = Ok (lenN vs) /\ a' = arr_of vs.
Proof. intros s fixed dflt ops a H. pose proof (arr_run_ok s fixed dflt ops a H) as K. split; [exact K|exact (arr_ok_items _ K)]. Qed.
Print Assumptions C03_array_invariant.

Theorem C03_array_fixed_length : forall s n dflt op a a', arr_ok a -> count_of a = Ok n ->
  arr_step s (Some n) dflt op a = Ok a' -> count_of a' = Ok n.
Proof. exact arr_step_fixed. Qed.
Print Assumptions C03_array_fixed_length.

(* Any.cast_out(ArrayOf class), written on the object (decode into a helper, answer helper.value[1:]), IS
   Codec.cast_out at TArrayOf, for ARBITRARY tags: the answer is the element list, the count cell never leaks *)
Theorem C03_array_cast_out_is_elements : forall s fixed ts,
  cast_out (TArrayOf s fixed) ts = do vs <- arr_cast_out s fixed ts; Ok (VList vs).
Proof. exact arr_cast_out_tie. Qed.
Print Assumptions C03_array_cast_out_is_elements.

(* whole-array round trip on the object: the decoded object is the encoded one, count cell included, and
   Any.cast_in / cast_out gives back exactly the elements (any length, 0 included) *)
Theorem C03_array_object_roundtrip : forall s fixed vs ts rest,
  supported (TArrayOf s fixed) = true -> wf_ty (TArrayOf s fixed) = true ->
  has_ty (TArrayOf s fixed) (VList vs) -> arr_encode s (arr_of vs) = Ok ts -> rest_ok [PAny] rest ->
  arr_decode s fixed (ts ++ rest) = Ok (arr_of vs, rest) /\ arr_cast_out s fixed ts = Ok vs.
Proof. exact arr_obj_roundtrip. Qed.
Print Assumptions C03_array_object_roundtrip.

(* item access (ReadProperty / WriteProperty with propertyArrayIndex): index 0 travels as the count, an
   Unsigned (bound: the count fits 32 bits, Unsigned.encode packs '>L'), and reads back as the count ... *)
Theorem C03_array_item_roundtrip_count : forall s dflt vs, lenN vs < 4294967296 ->
  exists t, arr_encode_item s 0 (arr_of vs) = Ok [t] /\
            forall rest, arr_decode_item s dflt 0 ([t] ++ rest) = Ok (CCount (lenN vs), rest).
Proof. exact arr_item_roundtrip_count. Qed.
Print Assumptions C03_array_item_roundtrip_count.

(* ... index i >= 1 travels as the encoding of the i-th element and reads back as that element *)
Theorem C03_array_item_roundtrip_elem : forall s dflt vs i v ts rest,
  supported s = true -> wf_ty s = true -> has_ty s v ->
  1 <= i -> nth_error vs (N.to_nat i - 1) = Some v ->
  arr_encode_item s i (arr_of vs) = Ok ts -> rest_ok (avoid s) rest ->
  encode s v = Ok ts /\ arr_decode_item s dflt i (ts ++ rest) = Ok (CItem v, rest).
Proof. exact arr_item_roundtrip_elem. Qed.
Print Assumptions C03_array_item_roundtrip_elem.

(* non-vacuity: ArrayOf(Unsigned)([10,20,30]); append 40; a[0] = 2 (shrink); a[0] = 4 (grow with the default 0);
   a[1] = 7; del a[2]; a refused a[9] = 7 in between *)
Definition u8 (n : N) : val := VAtom (mkTag 0 2 1 [n]).
Example C03_array_history :
  arr_new None (u8 0) (Some [u8 10; u8 20; u8 30]) = Ok (arr_of [u8 10; u8 20; u8 30]) /\
  arr_run (TAtom 2) None (u8 0)
    [OAppend (u8 40); OSetLen 2; OSet 9 (u8 7); OSetLen 4; OSet 1 (u8 7); ODel 2] (arr_of [u8 10; u8 20; u8 30])
  = ([0; 0; err_code IndexErr; 0; 0; 0]%Z, arr_of [u8 7; u8 0; u8 0]) /\
  arr_new (Some 3) (u8 0) None = Ok (arr_of [u8 0; u8 0; u8 0]) /\
  arr_step (TAtom 2) (Some 3) (u8 0) (OAppend (u8 1)) (arr_of [u8 0; u8 0; u8 0]) = Err TypeErr.
Proof. repeat split; vm_compute; reflexivity. Qed.

Example C03_array_object_instance :   (* the theorems applied: three Unsigned, then per item *)
  arr_cast_out (TAtom 2) None [mkTag 0 2 1 [10]; mkTag 0 2 1 [20]; mkTag 0 2 1 [30]] = Ok [u8 10; u8 20; u8 30] /\
  arr_encode_item (TAtom 2) 0 (arr_of [u8 10; u8 20; u8 30]) = Ok [mkTag 0 2 1 [3]] /\
  arr_decode_item (TAtom 2) (u8 0) 2 ([mkTag 0 2 1 [20]] ++ []) = Ok (CItem (u8 20), []).
Proof.
  assert (L : forall n, n < 256 -> n <> 0 -> leaf_ok 2 (mkTag 0 2 1 [n])).
  { intros n H0 H1. repeat split. }
  split; [|split].
  - apply (C03_array_object_roundtrip (TAtom 2) None [u8 10; u8 20; u8 30] _ []); try (vm_compute; reflexivity); try exact I.
    cbn. split; [|exact I]. repeat constructor.
  - vm_compute. reflexivity.
  - apply (C03_array_item_roundtrip_elem (TAtom 2) (u8 0) [u8 10; u8 20; u8 30] 2 (u8 20));
      try (vm_compute; reflexivity); try exact I; try lia.
    cbn. repeat split.
Qed.
