(* C12 — what is sent respects what the peer said it can accept.
   Property theorems only; model Bac.Ssm, proofs in Bac.SsmC12. *)
From Bac Require Import Base PyRt Ssm SsmFacts SsmC04a SsmC12 SsmWorld SsmDevInfo SsmDevInfoFacts.
From BacGen Require Import ApduFns.
Open Scope Z_scope.

(* the APDU is NOT bounded by the peer's maximum: the slice is, and the header comes on top (56 octets towards max 50) *)
Theorem C12_len_le_peer_max_refuted :
  match get_segment over_sender 1 with Ok a => enc_len a = 56 /\ client_segsize over_sender = 50 | Err _ => False end.
Proof. exact over_witness. Qed.
Print Assumptions C12_len_le_peer_max_refuted.

(* what does hold: the payload part is within the segment size, the APDU within segment size + 6; the segment size is what
   ClientSSM.indication computes, and that never exceeds the maximum recorded from the peer's I-Am (nor the path's max NPDU) *)
Theorem C12_len_le_peer_max_partial : forall s i a, 0 <= s_segsize s -> get_segment s i = Ok a ->
  zlen (a_data a) <= s_segsize s /\ enc_len a <= s_segsize s + 6.
Proof. exact get_segment_len. Qed.
Print Assumptions C12_len_le_peer_max_partial.

Theorem C12_request_segment_size : forall a st, a_type a = 0 -> s_segsize (h_s (fst (c_indication a st))) = client_segsize (h_s st).
Proof. exact c_indication_segsize. Qed.
Print Assumptions C12_request_segment_size.

Theorem C12_segment_size_le_iam : forall s d m, s_dinfo s = Some d -> d_maxapdu d = Some m -> client_segsize s <= m.
Proof. exact client_segsize_le_peer. Qed.
Print Assumptions C12_segment_size_le_iam.

Theorem C12_response_segment_size : forall s, server_segsize s <= s_maxapdu s.
Proof. exact server_segsize_le. Qed.
Print Assumptions C12_response_segment_size.

(* I-Am data: the latest I-Am always wins.  After the application has recorded an I-Am (SsmWorld.iam_update = DeviceInfoCache.
   iam_device_info), whether or not transactions with that peer are open, the record carries the announced maximum and
   segmentation support, every open transaction that holds a record of that peer sees it, and a request submitted from then
   on is cut to at most the announced length *)
Theorem C12_latest_iam_wins : forall addr peer ma sg w n, get_node addr (w_nodes w) = Some n -> c_raw (n_cfg n) = false ->
  exists n' d, get_node addr (w_nodes (iam_update addr peer ma sg w)) = Some n' /\
    assoc peer (c_know (n_cfg n')) = Some d /\ d_maxapdu d = Some ma /\ d_seg d = sg /\
    (forall t, In t (n_ctr n' ++ n_str n') -> s_peer t = peer -> s_dinfo t <> None -> s_dinfo t = Some d) /\
    client_segsize (new_ssm (n_cfg n') peer true) <= ma.
Proof. exact iam_update_record. Qed.
Print Assumptions C12_latest_iam_wins.

(* the limit the server holds is the one decoded from the request when nothing is recorded about the client ... *)
Theorem C12_response_limit_from_request : forall a st dec, a_type a = 0 -> decode_max_apdu_length_accepted (a_maxresp a) = Ok (Some dec) ->
  s_dinfo (h_s st) = None -> s_maxapdu (h_s (fst (s_idle a st))) = dec.
Proof. exact s_idle_limit. Qed.
Print Assumptions C12_response_limit_from_request.

(* ... and the recorded I-Am value when that is larger (request says 50, record says 480: 480 is used) *)
Theorem C12_response_limit_prefers_iam_refuted :
  let s := mkSsm 1 (-1) IDLE None 0 0 0 0 false 0 0 None 3 3000 1500 3 (Some 64) 1476 false None
                 (Some (mkDinfo (Some 480) 3 None None)) 2 3000 in
  s_maxapdu (h_s (fst (s_idle (mk_creq false false true (-1) (-1) 0 0 5 12 [1]) (mkH s [] 0 0 true)))) = 480.
Proof. exact iam_preferred_witness. Qed.
Print Assumptions C12_response_limit_prefers_iam_refuted.

(* a response is segmented only if this side can transmit segments, the request allowed segmented responses, and the
   count is within the request's limit ... *)
Theorem C12_segmented_only_if_allowed : forall s cnt, s_refuse s cnt = None -> 1 < cnt ->
  can_tx (s_segsupp s) = true /\ s_sra s = true /\ forall m, s_maxsegs s = Some m -> cnt <= m.
Proof. exact s_refuse_none. Qed.
Print Assumptions C12_segmented_only_if_allowed.

(* the limit on the number of segments of a response is the one decoded from the request being answered — and the
   segmented-response-accepted flag is the request's SA bit — whatever the record of the client says; the check itself
   never looks at the record *)
Theorem C12_response_segment_limit_from_request : forall a st dec ms, a_type a = 0 ->
  decode_max_apdu_length_accepted (a_maxresp a) = Ok (Some dec) -> dec_maxsegs (a_maxsegs a) = Ok ms ->
  s_maxsegs (h_s (fst (s_idle a st))) = ms /\ s_sra (h_s (fst (s_idle a st))) = a_sa a.
Proof. exact s_idle_maxsegs. Qed.
Print Assumptions C12_response_segment_limit_from_request.

Theorem C12_refusal_ignores_record : forall s d cnt, s_refuse (set_dinfo_f d s) cnt = s_refuse s cnt.
Proof. exact s_refuse_ignores_record. Qed.
Print Assumptions C12_refusal_ignores_record.

(* ... otherwise the requester gets an abort (segmentation not supported / APDU too long) and nothing else is sent *)
Theorem C12_segments_le_max_else_abort : forall a st cnt r, a_type a = 3 -> h_outs st = [] ->
  seg_count (zlen (a_data a)) (server_segsize (h_s st)) = Ok cnt -> s_refuse (h_s st) cnt = Some r ->
  s_state (h_s st) <> COMPLETED -> s_state (h_s st) <> ABORTED ->
  h_outs (fst (s_confirmation a st)) = [Tx (mk_abort true (s_invoke (h_s st)) r)] /\ h_live (fst (s_confirmation a st)) = false.
Proof. exact s_confirmation_refused. Qed.
Print Assumptions C12_segments_le_max_else_abort.

Theorem C12_abort_reasons : forall s cnt r, s_refuse s cnt = Some r -> 1 < cnt /\ (r = R_SEG_NOT_SUPPORTED \/ r = R_APDU_TOO_LONG).
Proof. exact s_refuse_reason. Qed.
Print Assumptions C12_abort_reasons.

(* a request is segmented only if this side can transmit segments and, when the peer's data is recorded, the peer can
   receive them and the count is within its limit; otherwise the application gets a local abort and nothing is sent *)
Theorem C12_request_segmented_only_to_capable_peer : forall s cnt, c_refuse s cnt = None -> 1 < cnt ->
  can_tx (s_segsupp s) = true /\
  forall d, s_dinfo s = Some d -> can_rx (d_seg d) = true /\ forall m, d_maxsegs d = Some m -> m <> 0 -> cnt <= m.
Proof. exact c_refuse_none. Qed.
Print Assumptions C12_request_segmented_only_to_capable_peer.

Theorem C12_request_refused_locally : forall a st cnt r, a_type a = 0 -> h_outs st = [] ->
  seg_count (zlen (a_data a)) (client_segsize (h_s st)) = Ok cnt -> c_refuse (h_s st) cnt = Some r ->
  s_state (h_s st) <> COMPLETED -> s_state (h_s st) <> ABORTED ->
  h_outs (fst (c_indication a st)) = [ToApp (mk_abort false (a_invoke a) r)] /\ h_live (fst (c_indication a st)) = false.
Proof. exact c_indication_refused. Qed.
Print Assumptions C12_request_refused_locally.

(* windows: what a server grants never exceeds what the client proposed ... *)
Theorem C12_window_le_proposed : forall a st x, a_type a = 0 -> a_seg a = true -> h_outs st = [] ->
  In (Tx x) (h_outs (fst (s_idle a st))) -> a_type x = 4 ->
  a_win x = Z.min (a_win a) (s_propwin (h_s st)) /\ a_win x <= a_win a.
Proof. exact s_idle_window. Qed.
Print Assumptions C12_window_le_proposed.

(* ... but values from the wire are not checked against 1..127: a proposed 0 is granted as 0, an acknowledged 200 is adopted,
   used (3 segments left, all sent) and echoed in the segments *)
Theorem C12_window_range_refuted :
  h_outs (fst (s_idle (mk_creq true true true 0 0 0 0 5 12 [1; 2; 3]) (mkH idle_server [] 0 0 true))) = [Tx (mk_segack false true 5 0 0)]
  /\ let st := fst (c_confirmation (mk_segack false true 1 0 200) (mkH (set_initseq_f 0 over_sender) [] 1 0 true)) in
     s_actwin (h_s st) = Some 200 /\ zlen (tx_frames (h_outs st)) = 3 /\ forallb (fun x => a_win x =? 200) (tx_frames (h_outs st)) = true.
Proof. split; [exact window_zero_witness | exact window_200_witness]. Qed.
Print Assumptions C12_window_range_refuted.

(* round 6 — the DeviceInfoCache life cycle (model SsmDevInfo.v: records aliased under instance and address keys).
   An Application constructed with a cache uses that very cache whatever it holds — the EMPTY cache included
   (`deviceInfoCache or DeviceInfoCache()`: the class has neither __bool__ nor __len__), so records that reach the caller's
   cache later are the ones the state machines acquire *)
Theorem C12_app_uses_supplied_cache : forall (A : Type) (c fresh : A), app_cache (Some c) fresh = c.
Proof. exact (@app_cache_supplied). Qed.
Print Assumptions C12_app_uses_supplied_cache.

(* the first I-Am recorded into the empty cache: acquire by address and by instance give exactly the announced limits *)
Theorem C12_cache_first_iam : forall inst addr ma seg,
  let c := fst (iam_device_info inst addr ma seg empty_cache) in
  snd (iam_device_info inst addr ma seg empty_cache) = None /\
  snd (acquire (false, addr) c) = Ok (Some (mkDrec inst addr ma seg (Some 1) (Some (inst, addr)))) /\
  snd (acquire (true, inst) c) = Ok (Some (mkDrec inst addr ma seg (Some 1) (Some (inst, addr)))).
Proof. exact first_iam_acquire. Qed.
Print Assumptions C12_cache_first_iam.

(* a further I-Am of a device already recorded under the same instance and address is NOT ignored: keys unchanged, the record
   (shared with every open transaction) takes the new limits.  _partial: the general history (devices that change address or
   instance, two devices claiming one address — where `del` can raise KeyError in the model as in the code) is covered by the
   correspondence cases only *)
Theorem C12_cache_repeated_iam_updates_partial : forall c inst addr ma seg i r n,
  dict_get (true, inst) (dc_dict c) = Some i -> nth_error (dc_heap c) i = Some r ->
  r_keys r = Some (inst, addr) -> r_ref r = Some n ->
  exists c', iam_device_info inst addr ma seg c = (c', None) /\ dc_dict c' = dc_dict c /\
             nth_error (dc_heap c') i = Some (mkDrec inst addr ma seg (Some n) (Some (inst, addr))).
Proof. exact repeated_iam_updates. Qed.
Print Assumptions C12_cache_repeated_iam_updates_partial.

Example C12_cache_example :
  run_cache_ops [CApp true; CIam 5 5 480 3; CIam 5 5 50 0; CAcquire false 5] =
  [23; 1; 20; 20; 21; 1; 5; 5; 50; 0; 1; 24; 0; 5; 5; 5; 50; 0; 1; 24; 1; 5; 5; 5; 50; 0; 1].
Proof. vm_compute. reflexivity. Qed.

Example C12_refuse_examples :
  s_refuse (set_limits_f (Some 2) 50 true idle_server) 3 = Some R_APDU_TOO_LONG /\
  s_refuse (set_limits_f (Some 2) 50 false idle_server) 2 = Some R_SEG_NOT_SUPPORTED /\
  s_refuse (set_limits_f (Some 2) 50 true idle_server) 2 = None /\
  c_refuse over_sender 4 = None.
Proof. vm_compute. repeat split. Qed.
