(* C02 — Tag streams are self-delimiting: framing is total, canonical and balanced.
   Property theorems only; proofs live in Bac.TagFacts / Bac.TagHdr. *)
From Bac Require Import Base Tag TagHdr TagFacts PyLoops TagGenFacts.
From BacGen Require Import TagFns.
Open Scope N_scope.

(* one tag followed by anything decodes to exactly that tag, rest untouched *)
Theorem C02_tag_roundtrip : forall t, wf_tag t = true ->
  exists bs, enc_tag t = Ok bs /\ forall rest, dec_tag (bs ++ rest) = Ok (t, rest).
Proof. exact tag_roundtrip. Qed.
Print Assumptions C02_tag_roundtrip.

(* any list of well-formed tags: decode (encode ts) = ts, every octet consumed *)
Theorem C02_list_roundtrip : forall ts, forallb wf_tag ts = true ->
  exists bs, enc_tags ts = Ok bs /\ dec_tags bs = Ok ts.
Proof. exact list_roundtrip. Qed.
Print Assumptions C02_list_roundtrip.

(* canonical form: the octets are the standard's header (length escapes 5..253 / 254+2 /
   255+4, extended tag-number octet) followed by the data *)
Theorem C02_canonical_header : forall t, wf_tag t = true ->
  enc_tag t = Ok (spec_header t ++ data t).
Proof. exact enc_tag_spec. Qed.
Print Assumptions C02_canonical_header.

(* arbitrary octets: terminates (fuel never exhausted) with a tag list or InvalidTag *)
Theorem C02_decode_total : forall bs,
  (exists ts, dec_tags bs = Ok ts) \/ dec_tags bs = Err InvalidTag.
Proof. exact decode_total. Qed.
Print Assumptions C02_decode_total.

(* never over-reads: a decoded tag is a 1..7 octet header, exactly its data, then the rest *)
Theorem C02_no_overread : forall bs t r, dec_tag bs = Ok (t, r) ->
  exists h, bs = h ++ data t ++ r /\ (1 <= length h <= 7)%nat.
Proof. exact dec_tag_shape. Qed.
Print Assumptions C02_no_overread.

(* a decoded list re-encodes to octets that decode to the same list *)
Theorem C02_reencode_stable : forall bs ts, bytes_ok bs = true -> dec_tags bs = Ok ts ->
  exists bs', enc_tags ts = Ok bs' /\ dec_tags bs' = Ok ts.
Proof. exact reencode_stable. Qed.
Print Assumptions C02_reencode_stable.

(* nested groups are extracted exactly when they balance, at every depth *)
Theorem C02_get_context_balanced : forall ctx o body c rest,
  cls o = 2 -> num o = ctx -> cls c = 3 -> balanced body ->
  get_context ctx (o :: body ++ c :: rest) = Ok (CtxGroup body).
Proof. exact get_context_group. Qed.
Print Assumptions C02_get_context_balanced.

Theorem C02_get_context_unbalanced : forall ctx o body,
  cls o = 2 -> balanced body -> get_context ctx (o :: body) = Err InvalidTag.
Proof. exact get_context_unbalanced. Qed.
Print Assumptions C02_get_context_unbalanced.

Theorem C02_any_balanced : forall body c rest,
  balanced body -> cls c = 3 -> any_decode (body ++ c :: rest) = Ok (body, c :: rest).
Proof. exact any_decode_balanced. Qed.
Print Assumptions C02_any_balanced.

Theorem C02_any_unbalanced : forall o body,
  cls o = 2 -> balanced body -> any_decode (o :: body) = Err DecodingError.
Proof. exact any_decode_unbalanced. Qed.
Print Assumptions C02_any_unbalanced.

(* ---- tie by translation: BacGen.TagFns is regenerated from primitivedata.py on every run
   (translator/gen_tagfns.py, statement by statement); the translated Tag.encode / Tag.decode /
   TagList.encode / TagList.decode ARE the model, for every input *)
Theorem C02_translated_encode_is_model : forall t pdu,
  gen_Tag_encode t pdu = do bs <- enc_tag t; Ok (pdu ++ bs).
Proof. exact gen_Tag_encode_eq. Qed.
Print Assumptions C02_translated_encode_is_model.

Theorem C02_translated_decode_is_model : forall bs, gen_Tag_decode bs = dec_tag bs.
Proof. exact gen_Tag_decode_eq. Qed.
Print Assumptions C02_translated_decode_is_model.

Theorem C02_translated_list_encode_is_model : forall ts pdu,
  gen_TagList_encode ts pdu = do bs <- enc_tags ts; Ok (pdu ++ bs).
Proof. exact gen_TagList_encode_eq. Qed.
Print Assumptions C02_translated_list_encode_is_model.

(* self.tagList = acc on entry: the decoded tags are appended, the buffer is left empty *)
Theorem C02_translated_list_decode_is_model : forall acc bs,
  gen_TagList_decode acc bs = do ts <- dec_tags bs; Ok (acc ++ ts, []).
Proof. exact gen_TagList_decode_eq. Qed.
Print Assumptions C02_translated_list_decode_is_model.

(* the main theorems stated directly on the translated source text *)
Theorem C02_gen_tag_roundtrip : forall t, wf_tag t = true ->
  exists bs, gen_Tag_encode t [] = Ok bs /\ forall rest, gen_Tag_decode (bs ++ rest) = Ok (t, rest).
Proof. exact gen_tag_roundtrip. Qed.
Print Assumptions C02_gen_tag_roundtrip.

Theorem C02_gen_list_roundtrip : forall ts, forallb wf_tag ts = true ->
  exists bs, gen_TagList_encode ts [] = Ok bs /\ gen_TagList_decode [] bs = Ok (ts, []).
Proof. exact gen_list_roundtrip. Qed.
Print Assumptions C02_gen_list_roundtrip.

Theorem C02_gen_canonical_header : forall t, wf_tag t = true ->
  gen_Tag_encode t [] = Ok (spec_header t ++ data t).
Proof. exact gen_canonical_header. Qed.
Print Assumptions C02_gen_canonical_header.

Theorem C02_gen_decode_total : forall bs,
  (exists ts, gen_TagList_decode [] bs = Ok (ts, [])) \/ gen_TagList_decode [] bs = Err InvalidTag.
Proof. exact gen_decode_total. Qed.
Print Assumptions C02_gen_decode_total.

Theorem C02_gen_no_overread : forall bs t r, gen_Tag_decode bs = Ok (t, r) ->
  exists h, bs = h ++ data t ++ r /\ (1 <= length h <= 7)%nat.
Proof. exact gen_no_overread. Qed.
Print Assumptions C02_gen_no_overread.

Theorem C02_gen_reencode_stable : forall bs ts, bytes_ok bs = true ->
  gen_TagList_decode [] bs = Ok (ts, []) ->
  exists bs', gen_TagList_encode ts [] = Ok bs' /\ gen_TagList_decode [] bs' = Ok (ts, []).
Proof. exact gen_reencode_stable. Qed.
Print Assumptions C02_gen_reencode_stable.

(* refusal: a tag number beyond the extended-number octet is never put on the wire *)
Theorem C02_gen_encode_refuses_number : forall t pdu, 256 <= num t -> gen_Tag_encode t pdu = Err ValueErr.
Proof. exact gen_encode_refuses_number. Qed.
Print Assumptions C02_gen_encode_refuses_number.

(* non-vacuity: concrete tags meet the hypotheses, including every length escape *)
Example C02_wf_examples :
  forallb wf_tag [mkTag 0 2 1 [5]; mkTag 1 254 0 []; mkTag 2 15 0 []; mkTag 3 0 0 [];
                  mkTag 0 1 1 []; mkTag 1 3 6 [1;2;3;4;5;6]] = true.
Proof. vm_compute. reflexivity. Qed.
Example C02_balanced_example :
  balanced [mkTag 2 1 0 []; mkTag 0 2 1 [7]; mkTag 2 2 0 []; mkTag 3 2 0 []; mkTag 3 1 0 []].
Proof.
  apply (bal_group (mkTag 2 1 0 []) [mkTag 0 2 1 [7]; mkTag 2 2 0 []; mkTag 3 2 0 []] (mkTag 3 1 0 []) []);
    try reflexivity; try constructor; try (cbn; lia).
  apply (bal_group (mkTag 2 2 0 []) [] (mkTag 3 2 0 []) []); try reflexivity; constructor.
Qed.

(* the translated functions compute: every length escape through the generated encoder and back *)
Example C02_gen_runs :
  (do bs <- gen_TagList_encode [mkTag 1 200 300 (repeat 7 300%nat); mkTag 0 1 1 []; mkTag 2 15 0 []] [];
   gen_TagList_decode [] bs)
  = Ok ([mkTag 1 200 300 (repeat 7 300%nat); mkTag 0 1 1 []; mkTag 2 15 0 []], []).
Proof. vm_compute. reflexivity. Qed.
Example C02_gen_refusal_example : gen_Tag_encode (mkTag 0 256 0 []) [] = Err ValueErr.
Proof. vm_compute. reflexivity. Qed.
