(* C10 — a device answers every well-framed request and stays healthy under garbage.
   Reply-decision half: whatever the parameter decoder and the service do, a confirmed request whose
   header was accepted gets exactly one reply (never silence), malformed parameters get a Reject/Abort,
   unknown or unsupported services a Reject(unrecognized-service).  The transport half (one transaction,
   no residue) is C04/C12's model; health under garbage is checked on the implementation (direct check). *)
From Bac Require Import Base Asap AsapFacts.
Open Scope N_scope.

(* exactly one reply whenever the service itself answers or raises (XSilent = a service helper that
   returns without responding: none of the library's helpers does, checked by the correspondence) *)
Theorem C10_one_reply : forall known have_helper d x,
  x <> XSilent -> exists r, asap_confirmed known have_helper d x = [r].
Proof. exact one_reply. Qed.
Print Assumptions C10_one_reply.

Theorem C10_at_most_one_reply : forall known have_helper d x,
  (length (asap_confirmed known have_helper d x) <= 1)%nat.
Proof. exact at_most_one. Qed.
Print Assumptions C10_at_most_one_reply.

(* malformed parameters — whatever exception class the decoder raises — are answered by reject/abort *)
Theorem C10_decode_errors_are_rejects : forall known have_helper d x,
  d <> DOk -> exists r, asap_confirmed known have_helper d x = [r] /\ (ptype r = REJECT \/ ptype r = ABORT).
Proof. exact malformed_rejected. Qed.
Print Assumptions C10_decode_errors_are_rejects.

Theorem C10_unknown_service_rejected : forall have_helper d x,
  asap_confirmed false have_helper d x = [mkReply REJECT unrecognizedService 0].
Proof. exact unknown_service_rejected. Qed.
Print Assumptions C10_unknown_service_rejected.

Theorem C10_unsupported_service_rejected : forall x,
  asap_confirmed true false DOk x = [mkReply REJECT unrecognizedService 0].
Proof. exact unsupported_service_rejected. Qed.
Print Assumptions C10_unsupported_service_rejected.

Theorem C10_service_exception_is_error : 
  asap_confirmed true true DOk XExn = [mkReply ERROR errDevice errOperationalProblem].
Proof. exact exec_exception_mapped. Qed.
Print Assumptions C10_service_exception_is_error.

Example C10_nonvacuous :
  asap_confirmed true true (DExn AttrErr) XSilent = [mkReply REJECT rejectOther 0] /\
  asap_confirmed true true DOk (XResp 3 0 0) = [mkReply 3 0 0].
Proof. split; reflexivity. Qed.
