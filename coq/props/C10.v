(* C10 — a device answers every well-framed request and stays healthy under garbage.
   Reply-decision half: whatever the parameter decoder and the service do, a confirmed request whose
   header was accepted gets exactly one reply (never silence), malformed parameters get a Reject/Abort,
   unknown or unsupported services a Reject(unrecognized-service).  The transport half (one transaction,
   no residue) is C04/C12's model; health under garbage is checked on the implementation (direct check). *)
From Bac Require Import Base.
From Bac Require Import Tag.
From Bac Require Import Schema.
From Bac Require Import Codec.
From Bac Require Import Asap.
From Bac Require Import AsapFacts.
From Bac Require Import AsapCodec.
From Bac Require Import AsapCodecFacts.
From BacGen Require Import Schemas.
Open Scope N_scope.

(* exactly one reply whenever the service itself answers or raises (XSilent = a service helper that
   returns without responding: none of the library's helpers does, checked by the correspondence) *)
Theorem C10_one_reply : forall known have_helper d x,
  x <> XSilent -> exists r, asap_confirmed known have_helper d x = [r].
Proof. exact one_reply. Qed.
Print Assumptions C10_one_reply.

Theorem C10_at_most_one_reply : forall known have_helper d x,
  (length (asap_confirmed known have_helper d x) <= 1)%nat.
Proof. exact at_most_one. Qed.
Print Assumptions C10_at_most_one_reply.

(* malformed parameters — whatever exception class the decoder raises — are answered by reject/abort *)
Theorem C10_decode_errors_are_rejects : forall known have_helper d x,
  d <> DOk -> exists r, asap_confirmed known have_helper d x = [r] /\ (ptype r = REJECT \/ ptype r = ABORT).
Proof. exact malformed_rejected. Qed.
Print Assumptions C10_decode_errors_are_rejects.

Theorem C10_unknown_service_rejected : forall have_helper d x,
  asap_confirmed false have_helper d x = [mkReply REJECT unrecognizedService 0].
Proof. exact unknown_service_rejected. Qed.
Print Assumptions C10_unknown_service_rejected.

Theorem C10_unsupported_service_rejected : forall x,
  asap_confirmed true false DOk x = [mkReply REJECT unrecognizedService 0].
Proof. exact unsupported_service_rejected. Qed.
Print Assumptions C10_unsupported_service_rejected.

Theorem C10_service_exception_is_error : 
  asap_confirmed true true DOk XExn = [mkReply ERROR errDevice errOperationalProblem].
Proof. exact exec_exception_mapped. Qed.
Print Assumptions C10_service_exception_is_error.

(* from the octets: for EVERY octet string in the parameter area of a request whose service choice is
   in the (translated) registry, the codec model either accepts it or refuses it with some error class,
   and in the second case the client gets a Reject or an Abort — never silence — whatever the service
   implementation would have done *)
Theorem C10_any_parameter_octets_one_reply : forall svc params have_helper x,
  x <> XSilent -> exists r, asap_octets svc params have_helper x = [r].
Proof. exact octets_one_reply. Qed.
Print Assumptions C10_any_parameter_octets_one_reply.

Theorem C10_refused_parameters_rejected : forall svc params have_helper x t e,
  assocN svc confirmed_request_types = Some t -> decode_pdu t params = Err e ->
  exists r, asap_octets svc params have_helper x = [r] /\ (ptype r = REJECT \/ ptype r = ABORT).
Proof. exact octets_refused_params. Qed.
Print Assumptions C10_refused_parameters_rejected.

Theorem C10_unknown_service_octets : forall svc params have_helper x,
  assocN svc confirmed_request_types = None ->
  asap_octets svc params have_helper x = [mkReply REJECT unrecognizedService 0].
Proof. exact octets_unknown_service. Qed.
Print Assumptions C10_unknown_service_octets.

(* non-vacuity: a truncated ReadProperty (service 12, object identifier only) is refused by the codec with
   MissingRequired and answered Reject(missing-required-parameter = 5) *)
Example C10_truncated_readproperty :
  asap_octets 12 [12; 0; 128; 0; 1] true XSilent = [mkReply REJECT 5 0].
Proof. vm_compute. reflexivity. Qed.

Example C10_nonvacuous :
  asap_confirmed true true (DExn AttrErr) XSilent = [mkReply REJECT rejectOther 0] /\
  asap_confirmed true true DOk (XResp 3 0 0) = [mkReply 3 0 0].
Proof. split; reflexivity. Qed.
