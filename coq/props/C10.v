(* C10 — a device answers every well-framed request and stays healthy under garbage.
   Reply-decision half: whatever the parameter decoder and the service do, a confirmed request whose
   header was accepted gets exactly one reply (never silence), malformed parameters get a Reject/Abort,
   unknown or unsupported services a Reject(unrecognized-service).  The transport half (one transaction,
   no residue) is C04/C12's model; health under garbage is checked on the implementation (direct check). *)
From Bac Require Import Base.
From Bac Require Import Tag.
From Bac Require Import Schema.
From Bac Require Import Codec.
From Bac Require Import Asap.
From Bac Require Import AsapFacts.
From Bac Require Import AsapCodec.
From Bac Require Import AsapCodecFacts.
From BacGen Require Import Schemas.
Open Scope N_scope.

(* exactly one reply whenever the service itself answers or raises (XSilent = a service helper that
   returns without responding: none of the library's helpers does, checked by the correspondence) *)
Theorem C10_one_reply : forall known have_helper d x,
  x <> XSilent -> exists r, asap_confirmed known have_helper d x = [r].
Proof. exact one_reply. Qed.
Print Assumptions C10_one_reply.

Theorem C10_at_most_one_reply : forall known have_helper d x,
  (length (asap_confirmed known have_helper d x) <= 1)%nat.
Proof. exact at_most_one. Qed.
Print Assumptions C10_at_most_one_reply.

(* malformed parameters — whatever exception class the decoder raises — are answered by reject/abort *)
Theorem C10_decode_errors_are_rejects : forall known have_helper d x,
  d <> DOk -> exists r, asap_confirmed known have_helper d x = [r] /\ (ptype r = REJECT \/ ptype r = ABORT).
Proof. exact malformed_rejected. Qed.
Print Assumptions C10_decode_errors_are_rejects.

Theorem C10_unknown_service_rejected : forall have_helper d x,
  asap_confirmed false have_helper d x = [mkReply REJECT unrecognizedService 0].
Proof. exact unknown_service_rejected. Qed.
Print Assumptions C10_unknown_service_rejected.

Theorem C10_unsupported_service_rejected : forall x,
  asap_confirmed true false DOk x = [mkReply REJECT unrecognizedService 0].
Proof. exact unsupported_service_rejected. Qed.
Print Assumptions C10_unsupported_service_rejected.

Theorem C10_service_exception_is_error : 
  asap_confirmed true true DOk XExn = [mkReply ERROR errDevice errOperationalProblem].
Proof. exact exec_exception_mapped. Qed.
Print Assumptions C10_service_exception_is_error.

(* from the octets: for EVERY octet string in the parameter area of a request whose service choice is
   in the (translated) registry, the codec model either accepts it or refuses it with some error class,
   and in the second case the client gets a Reject or an Abort — never silence — whatever the service
   implementation would have done *)
Theorem C10_any_parameter_octets_one_reply : forall svc params have_helper x,
  x <> XSilent -> exists r, asap_octets svc params have_helper x = [r].
Proof. exact octets_one_reply. Qed.
Print Assumptions C10_any_parameter_octets_one_reply.

Theorem C10_refused_parameters_rejected : forall svc params have_helper x t e,
  assocN svc confirmed_request_types = Some t -> decode_pdu t params = Err e ->
  exists r, asap_octets svc params have_helper x = [r] /\ (ptype r = REJECT \/ ptype r = ABORT).
Proof. exact octets_refused_params. Qed.
Print Assumptions C10_refused_parameters_rejected.

Theorem C10_unknown_service_octets : forall svc params have_helper x,
  assocN svc confirmed_request_types = None ->
  asap_octets svc params have_helper x = [mkReply REJECT unrecognizedService 0].
Proof. exact octets_unknown_service. Qed.
Print Assumptions C10_unknown_service_octets.

(* non-vacuity: a truncated ReadProperty (service 12, object identifier only) is refused by the codec with
   MissingRequired and answered Reject(missing-required-parameter = 5) *)
Example C10_truncated_readproperty :
  asap_octets 12 [12; 0; 128; 0; 1] true XSilent = [mkReply REJECT 5 0].
Proof. vm_compute. reflexivity. Qed.

Example C10_nonvacuous :
  asap_confirmed true true (DExn AttrErr) XSilent = [mkReply REJECT rejectOther 0] /\
  asap_confirmed true true DOk (XResp 3 0 0) = [mkReply 3 0 0].
Proof. split; reflexivity. Qed.

(* ======================================================================================================
   Second half: "stays healthy under garbage", over the composed receive path (theories/DeviceRx.v):
   NPCI decoder (C08 model) -> process_npdu of a one-adapter device with the router cache (C19 model) ->
   APCI decoder (C07 model) -> StateMachineAccessPoint demultiplexing and the ServerSSM handlers (C04/C05/C11/C12
   model) -> the reply decision above from the octets (C03 codec model) -> the way down.
   Fragment: a non-router device with one adapter of unknown network number, acting as a server (empty client
   transaction table); service execution, the length of a ComplexAck and the I-Am bookkeeping enter as data of the
   event; a Network-Number-Is broadcast leaves the fragment (d_lost); the link layer (BVLL) is not in this model. *)
From Bac Require Import PyRt Ssm SsmC04a SsmC04h.
From Bac Require Npci Apci RouterCache SsmWorld.
From Bac Require Import DeviceRx DeviceRxFacts DeviceRxReply DeviceRxEnd DeviceRxPeer DeviceRxHdr.
From BacGen Require Import ApduFns.
Open Scope Z_scope.

(* (1) for EVERY frame — any octet string, from any station, unicast or broadcast, whatever the service layer is
   said to have done — the node invariant survives: the transaction table stays duplicate-free, every listed
   transaction is in a state with a time-out handler and holds an armed timer, nothing outside the table holds a timer *)
Theorem C10_garbage_preserves_inv : forall st now f x,
  dev_inv st -> dev_inv (fst (device_rx st now f x)).
Proof. exact device_rx_inv. Qed.
Print Assumptions C10_garbage_preserves_inv.

(* ... and over every history of frames, single timers firing and stretches of time, from power-up *)
Theorem C10_history_preserves_inv : forall evs st, dev_inv st -> dev_inv (fst (device_run st evs)).
Proof. exact device_run_inv. Qed.
Print Assumptions C10_history_preserves_inv.

(* the invariant in the property's own terms: as many armed timers as listed transactions, none elsewhere *)
Theorem C10_inv_no_residue : forall st, dev_inv st ->
  zlen (filter armed (d_str st)) = zlen (d_str st) /\ zlen (filter armed (d_gone st)) = 0.
Proof. exact inv_residue. Qed.
Print Assumptions C10_inv_no_residue.

(* (2) frames a decoder refuses are dropped: nothing is sent, nothing changes — except that a frame whose NPCI decoded
   and names a source network has taught the router cache the path to it before the APCI decoder refused *)
Theorem C10_undecodable_frame_is_dropped : forall st now f x e,
  Npci.dec_npci (f_data f) = Err e -> device_rx st now f x = (st, []).
Proof. exact npci_refused_dropped. Qed.
Print Assumptions C10_undecodable_frame_is_dropped.

Theorem C10_undecodable_apdu_is_dropped : forall st now f x c h rest e,
  Npci.dec_npci (f_data f) = Ok (c, h, rest) -> Npci.nmsg h = None -> Apci.dec_apci rest = Err e ->
  snd (device_rx st now f x) = [] /\ same_tables st (fst (device_rx st now f x)) /\
  (Npci.sadr h = None -> device_rx st now f x = (st, [])).
Proof. exact apci_refused_dropped. Qed.
Print Assumptions C10_undecodable_apdu_is_dropped.

Theorem C10_undecodable_netmsg_is_dropped : forall st now f x c h rest t,
  Npci.dec_npci (f_data f) = Ok (c, h, rest) -> Npci.nmsg h = Some t ->
  (existsb (N.eqb t) Npci.registered_types = false \/ exists e, Npci.dec_msg t rest = Err e) ->
  snd (device_rx st now f x) = [] /\ same_tables st (fst (device_rx st now f x)).
Proof. exact netmsg_refused_dropped. Qed.
Print Assumptions C10_undecodable_netmsg_is_dropped.

(* (3) after ANY history from power-up, a well-framed confirmed request (segmented or not) from a station on the local
   network that has no live transaction under that invoke ID draws exactly the frames of the history-free function
   reply_frames (configuration, DCC state, time, request, service outcome) — i.e. what a device that has seen nothing
   sends ... *)
Theorem C10_valid_after_garbage : forall cfg evs now f x m a,
  let st := fst (device_run (dev_init cfg) evs) in
  request_of f = Some (None, m, a) ->
  find_tr (a_invoke a) (peer_code None m) (d_str st) O = None ->
  snd (device_rx st now f x) = snd (device_rx (mkDev (d_cfg st) [] [] 0 (d_dcc st) RouterCache.empty [] false) now f x).
Proof. exact valid_after_garbage_fresh. Qed.
Print Assumptions C10_valid_after_garbage.

(* ... and for an unsegmented request with a defined max-APDU code whose answer is a SimpleAck, Error, Reject or Abort:
   exactly the one frame carrying the reply asap_octets prescribes for the octets.  _partial: a ComplexAck is covered by
   C10_valid_after_garbage and C10_one_reply_end_to_end (it may leave as first segment or Abort, decided by the SSM
   model), its parameters are not modelled; peers with an I-Am record and routed peers are covered by (1)/(2) and by
   the correspondence only *)
Theorem C10_valid_after_garbage_reply_partial : forall cfg evs now f x m a r dec,
  let st := fst (device_run (dev_init cfg) evs) in
  request_of f = Some (None, m, a) -> a_seg a = false ->
  decode_max_apdu_length_accepted (a_maxresp a) = Ok (Some dec) ->
  dcc_passes (d_dcc st) a = true ->
  find_tr (a_invoke a) (peer_code None m) (d_str st) O = None ->
  SsmWorld.assoc (peer_code None m) (SsmWorld.c_know (d_cfg st)) = None ->
  asap_octets (Z.to_N (a_service a)) (map Z.to_N (a_data a)) (x_helper x) (x_exec x) = [r] ->
  (ptype r = 2 \/ ptype r = 5 \/ ptype r = 6 \/ ptype r = 7)%N ->
  snd (device_rx st now f x) = [DFrame (mac_code (f_src f)) None (reply_apdu a x r)].
Proof. exact valid_after_garbage_reply. Qed.
Print Assumptions C10_valid_after_garbage_reply_partial.

(* (4) end to end: the octets of a frame that carry an intact confirmed-request header (unsegmented; ANY max-APDU code,
   reserved ones are answered by Abort), from a local station without a live transaction under that invoke ID and
   without I-Am record, on a device that listens (DCC), with a service that answers or raises: exactly one frame
   goes back, to the sender, carrying the invoke ID — whatever the parameter octets are *)
Theorem C10_one_reply_end_to_end : forall st now f x m a,
  request_of f = Some (None, m, a) -> a_seg a = false ->
  dcc_passes (d_dcc st) a = true ->
  find_tr (a_invoke a) (peer_code None m) (d_str st) O = None ->
  SsmWorld.assoc (peer_code None m) (SsmWorld.c_know (d_cfg st)) = None ->
  x_exec x <> XSilent ->
  exists fr, snd (device_rx st now f x) = [DFrame (mac_code (f_src f)) None fr] /\ a_invoke fr = a_invoke a.
Proof. exact one_reply_end_to_end. Qed.
Print Assumptions C10_one_reply_end_to_end.

(* the key the model files a transaction under (Ssm.s_peer : Z) determines the station (network, MAC): two stations
   never share a transaction, as `apdu.pduSource == tr.pdu_address` in the code *)
Theorem C10_peer_key_injective : forall net m net' m',
  bytes_ok m = true -> bytes_ok m' = true -> (length m <= 300)%nat -> (length m' <= 300)%nat ->
  match net with Some n => (n < 65536)%N | None => True end -> match net' with Some n => (n < 65536)%N | None => True end ->
  peer_code net m = peer_code net' m' -> net = net' /\ m = m'.
Proof. exact peer_code_inj. Qed.
Print Assumptions C10_peer_key_injective.

(* non-vacuity: the device of the correspondence check; a ReadProperty frame; a frame of random octets; a truncated
   request; a request with a reserved max-APDU code *)
Definition c10_cfg := SsmWorld.mkNode 1 1476 3 64 3 3000 5000 2 3000 false [].
Example C10_dev_inv_init : dev_inv (dev_init c10_cfg).
Proof. apply dev_init_inv. split; reflexivity. Qed.

(* (5) the fixed header octet by octet (wave 6).  request_octets ctl b0 b1 inv sc params = 1 :: ctl :: b0 :: b1 :: inv :: sc :: params:
   NPCI control without address fields (any priority, expecting-reply or not: ctl < 8), first APDU octet of an unsegmented
   confirmed request (b0 < 4: the reserved bit and segmented-response-accepted are free), ANY second octet b1 (reserved bit,
   max-segments code, max-APDU code incl. the reserved ones), ANY invoke ID octet — 0 and 255 are IDs like the others —, any
   service choice, any parameter octets.  Such a frame is a well-framed request for the model ... *)
Theorem C10_intact_header_is_a_request : forall m bc ctl b0 b1 inv sc params, plain_ctl ctl -> plain_b0 b0 ->
  request_of (mkFrame m bc (request_octets ctl b0 b1 inv sc params)) = Some (None, m, request_apdu b0 b1 inv sc params).
Proof. exact request_octets_parse. Qed.
Print Assumptions C10_intact_header_is_a_request.

(* ... and draws exactly one frame back to the sender under that very invoke ID, on any device state in which the station has
   no live transaction under the ID and no I-Am record, that listens (not DCC-disabled, or the service is DCC / Reinitialize),
   whenever the service answers or raises *)
Theorem C10_every_invoke_id_answered : forall st now m bc ctl b0 b1 inv sc params x,
  plain_ctl ctl -> plain_b0 b0 -> listens (d_dcc st) sc ->
  find_tr (Z.of_N inv) (peer_code None m) (d_str st) O = None ->
  SsmWorld.assoc (peer_code None m) (SsmWorld.c_know (d_cfg st)) = None ->
  x_exec x <> XSilent ->
  exists fr, snd (device_rx st now (mkFrame m bc (request_octets ctl b0 b1 inv sc params)) x) = [DFrame (mac_code m) None fr] /\
             a_invoke fr = Z.of_N inv.
Proof. exact header_octets_one_reply. Qed.
Print Assumptions C10_every_invoke_id_answered.

(* at power-up nothing is left to assume *)
Theorem C10_every_invoke_id_answered_fresh : forall cfg now m bc ctl b0 b1 inv sc params x,
  SsmWorld.c_know cfg = [] -> plain_ctl ctl -> plain_b0 b0 -> x_exec x <> XSilent ->
  exists fr, snd (device_rx (dev_init cfg) now (mkFrame m bc (request_octets ctl b0 b1 inv sc params)) x)
             = [DFrame (mac_code m) None fr] /\ a_invoke fr = Z.of_N inv.
Proof. exact header_octets_one_reply_fresh. Qed.
Print Assumptions C10_every_invoke_id_answered_fresh.

(* after any history, with a defined max-APDU code and an answer that is not a ComplexAck: the very reply asap_octets
   prescribes for the parameter octets, whatever the other header fields are.  _partial as C10_valid_after_garbage_reply_partial *)
Theorem C10_header_fields_do_not_change_reply_partial : forall cfg evs now m bc ctl b0 b1 inv sc params x r dec,
  let st := fst (device_run (dev_init cfg) evs) in
  let a := request_apdu b0 b1 inv sc params in
  plain_ctl ctl -> plain_b0 b0 -> listens (d_dcc st) sc ->
  decode_max_apdu_length_accepted (Z.of_N (N.land b1 15)) = Ok (Some dec) ->
  find_tr (Z.of_N inv) (peer_code None m) (d_str st) O = None ->
  SsmWorld.assoc (peer_code None m) (SsmWorld.c_know (d_cfg st)) = None ->
  asap_octets (Z.to_N (Z.of_N sc)) (map Z.to_N (map Z.of_N params)) (x_helper x) (x_exec x) = [r] ->
  (ptype r = 2 \/ ptype r = 5 \/ ptype r = 6 \/ ptype r = 7)%N ->
  snd (device_rx st now (mkFrame m bc (request_octets ctl b0 b1 inv sc params)) x) = [DFrame (mac_code m) None (reply_apdu a x r)].
Proof. exact header_octets_reply. Qed.
Print Assumptions C10_header_fields_do_not_change_reply_partial.

(* non-vacuity: ReadProperty under invoke ID 0 and under 255 with a reserved max-APDU code, on the device of the check *)
Example C10_invoke_id_zero :
  canon_douts (snd (device_rx (dev_init c10_cfg) 0 (mkFrame [9%N] false (request_octets 4 0 5 0 12 [12;0;128;0;1;25;85]%N)) (mkSvc true (XResp 3 0 0) 12 None)))
    = [1; 1; 265; -1; -1; 3; 0; 0; 0; 0; 0; -1; 12] /\
  canon_douts (snd (device_rx (dev_init c10_cfg) 0 (mkFrame [9%N] false (request_octets 0 3 0xFB 255 12 [12;0;128;0;1;25;85]%N)) (mkSvc true XSilent 0 None)))
    = [1; 1; 265; -1; -1; 7; 255; 0; 0; 0; 0; -1; 0].
Proof. vm_compute. split; reflexivity. Qed.

Example C10_request_of_readproperty :
  exists a, request_of (mkFrame [9%N] false [1;4;0;5;33;12;12;0;128;0;1;25;85]%N) = Some (None, [9%N], a) /\
            a_seg a = false /\ a_invoke a = 33 /\ dcc_passes 0 a = true.
Proof. eexists. vm_compute. repeat split. Qed.
Example C10_scenarios :
  canon_scenario c10_cfg 0 [ERx 0 (mkFrame [9%N] false [1;4;0;5;33;12;12;0;128;0;1;25;85]%N) (mkSvc true (XResp 3 0 0) 12 None)] 0
    = [1; 1; 265; -1; -1; 3; 33; 0; 0; 0; 0; -1; 12;  0; 0; 0; 0;   0;  0; 0; 0; 0;  0] /\
  canon_scenario c10_cfg 0 [ERx 0 (mkFrame [9%N] false [1;4;0;5;33;12;12;0;128;0;1]%N) (mkSvc true XSilent 0 None)] 0
    = [1; 1; 265; -1; -1; 6; 33; 5; 0; 0; 0; -1; 0;   0; 0; 0; 0;   0;  0; 0; 0; 0;  0] /\
  canon_scenario c10_cfg 0 [ERx 0 (mkFrame [9%N] false [1;4;0;9;33;12;12;0;128;0;1;25;85]%N) (mkSvc true XSilent 0 None)] 0
    = [1; 1; 265; -1; -1; 7; 33; 0; 0; 0; 0; -1; 0;   0; 0; 0; 0;   0;  0; 0; 0; 0;  0] /\
  canon_scenario c10_cfg 0 [ERx 0 (mkFrame [9%N] false [200;17;3]%N) no_svc] 0 = [0;  0; 0; 0; 0;   0;  0; 0; 0; 0;  0].
Proof. vm_compute. repeat split. Qed.
