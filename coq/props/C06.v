(* C06 — routers deliver each packet once to exactly the addressed stations. *)
From Bac Require Import Base Net NetFacts.
