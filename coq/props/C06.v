(* C06 — routers deliver each packet once to exactly the addressed stations.
   Property theorems only; the model is Bac.Net (no proofs), the proofs live in Bac.NetFacts.
   Local theorems hold for EVERY node state, adapter, and arriving frame of the model.  `Fwd` marks the copies made
   by the forwarding section of process_npdu (netservice.py:607-676), `Tx` every other frame a node emits. *)
From Bac Require Import Base Net NetFacts NetTerm NetTerm2 NetReply NetOnce NetRoute NetArrive NetLocal NetBcast NetTree NetFlood NetRound NetCert NetLbc NetAnn NetPark NetNum NetNumFacts NetNumInv.
Open Scope N_scope.

(* each router hop lowers the hop count by exactly one, and keeps payload and message type *)
Theorem C06_hop_decrement : forall n i src dst p n' acts j d q,
  process_npdu n i src dst p = (n', acts) -> In (Fwd j d q) acts ->
  n_hop p <> 0 /\ n_hop q + 1 = n_hop p /\ n_data q = n_data p /\ n_msg q = n_msg p.
Proof. exact thm_hop_decrement. Qed.
Print Assumptions C06_hop_decrement.

(* nothing is forwarded once the count is exhausted *)
Theorem C06_no_forward_at_zero : forall n i src dst p n' acts,
  process_npdu n i src dst p = (n', acts) -> n_hop p = 0 -> forall j d q, ~ In (Fwd j d q) acts.
Proof. exact thm_no_forward_at_zero. Qed.
Print Assumptions C06_no_forward_at_zero.

(* a frame without DADR (local unicast / local broadcast) is never forwarded: it stays on its network *)
Theorem C06_local_stays_local : forall n i src dst p n' acts,
  process_npdu n i src dst p = (n', acts) -> n_dadr p = None -> forall j d q, ~ In (Fwd j d q) acts.
Proof. exact thm_local_stays. Qed.
Print Assumptions C06_local_stays_local.

(* "not back onto the arrival network": FALSE of the code in one situation — the cache names a next-hop
   router on the arrival network.  Witness: router with ports (net 1, net 2) that has heard a router 0x0b on net 1
   announce network 5, and receives on net 1 a packet for network 5. *)
Theorem C06_not_back_refuted : exists n i src dst p j d q,
  In (Fwd j d q) (snd (process_npdu n i src dst p)) /\ j = i.
Proof.
  exists (mkNode [mkAd (Some 1) (Some [10]); mkAd (Some 2) (Some [10])] false [((Some 1, 5), [11])] []),
         0%nat, [1], (LStation [10]), (mkNpdu (Some (DStation 5 [7])) None 255 None [16; 99; 1]),
         0%nat, (LStation [11]), (mkNpdu (Some (DStation 5 [7])) (Some (1, [1])) 254 None [16; 99; 1]).
  vm_compute. split; [left; reflexivity|reflexivity].
Qed.
Print Assumptions C06_not_back_refuted.

(* ... and that is the only situation: a forwarded copy leaves on another adapter, or it is a routed-on unicast
   to the router the cache records for the destination network on the arrival network *)
Theorem C06_not_back_partial : forall n i src dst p n' acts j d q,
  process_npdu n i src dst p = (n', acts) -> In (Fwd j d q) acts ->
  j <> i \/
  exists ai dnet m, nth_adapter n' i = Some ai /\
    (n_dadr p = Some (DBcast dnet) \/ exists mm, n_dadr p = Some (DStation dnet mm)) /\
    find_net n' (Some dnet) = None /\ cache_get (rcache n') (a_net ai) dnet = Some m /\
    d = LStation m /\ n_dadr q = n_dadr p.
Proof. exact thm_not_back. Qed.
Print Assumptions C06_not_back_partial.

Theorem C06_not_back_global_broadcast : forall n i src dst p n' acts j d q,
  process_npdu n i src dst p = (n', acts) -> In (Fwd j d q) acts -> n_dadr p = Some DGlobal -> j <> i.
Proof. exact thm_not_back_global. Qed.
Print Assumptions C06_not_back_global_broadcast.

Theorem C06_not_back_last_leg : forall n i src dst p n' acts j d q,
  process_npdu n i src dst p = (n', acts) -> In (Fwd j d q) acts -> n_dadr q = None -> j <> i.
Proof. exact thm_not_back_last_leg. Qed.
Print Assumptions C06_not_back_last_leg.

Theorem C06_not_back_unless_cached : forall n i src dst p n' acts j d q,
  process_npdu n i src dst p = (n', acts) -> In (Fwd j d q) acts ->
  (forall ai dnet, nth_adapter n' i = Some ai -> cache_get (rcache n') (a_net ai) dnet = None) -> j <> i.
Proof. exact thm_not_back_unless_cached. Qed.
Print Assumptions C06_not_back_unless_cached.

(* the SADR of a forwarded copy is the one received, or (arrival network, link source) when there was none:
   it names the originator's network and station *)
Theorem C06_sadr_names_originator : forall n i src dst p n' acts j d q,
  process_npdu n i src dst p = (n', acts) -> In (Fwd j d q) acts ->
  exists ai inet, nth_adapter n i = Some ai /\ a_net ai = Some inet /\
                  n_sadr q = Some (match n_sadr p with Some s => s | None => (inet, src) end).
Proof. exact thm_sadr. Qed.
Print Assumptions C06_sadr_names_originator.

(* what reaches the application: the unchanged payload of an application-layer frame; a remote unicast only at
   the node whose local adapter has exactly that network and address; a remote broadcast only on its target
   network; a frame without DADR only on the local adapter; the source shown is the SADR when there is one *)
Theorem C06_local_unicast_only_addressee : forall n i src dst p n' acts s d x,
  process_npdu n i src dst p = (n', acts) -> In (Up s d x) acts ->
  exists ai la, nth_adapter n i = Some ai /\ nth_adapter n (local_idx n) = Some la /\
    x = n_data p /\ n_msg p = None /\ has_app n = true /\ s = shown_source n i ai src p /\
    match n_dadr p with
    | None => i = local_idx n
    | Some (DStation dnet m) => a_net la = Some dnet /\ a_mac la = Some m
    | Some (DBcast dnet) => a_net la = Some dnet
    | Some DGlobal => True
    end.
Proof. exact process_npdu_up. Qed.
Print Assumptions C06_local_unicast_only_addressee.

(* the LAN: a unicast frame is processed only by the port it names; a broadcast never by its sender *)
Theorem C06_lan_unicast_only_addressee : forall wmac f m,
  f_dst f = LStation m -> accepts wmac f = true -> wmac = m.
Proof. exact thm_lan_unicast. Qed.
Print Assumptions C06_lan_unicast_only_addressee.

Theorem C06_lan_no_echo : forall wmac f, f_dst f = LBcast -> f_src f = wmac -> accepts wmac f = false.
Proof. exact thm_lan_no_echo. Qed.
Print Assumptions C06_lan_no_echo.

(* one arriving frame is handed up at most once *)
Theorem C06_delivered_at_most_once : forall n i src dst p n' acts,
  process_npdu n i src dst p = (n', acts) -> (count_up acts <= 1)%nat.
Proof. exact process_npdu_up_once. Qed.
Print Assumptions C06_delivered_at_most_once.

(* apart from forwarded copies a node emits only network-layer messages and packets it had parked itself *)
Theorem C06_payload_leaves_only_forwarded_or_parked : forall n i src dst p n' acts j d q,
  process_npdu n i src dst p = (n', acts) -> In (Tx j d q) acts -> n_msg q <> None \/ parked n q.
Proof. exact process_npdu_tx. Qed.
Print Assumptions C06_payload_leaves_only_forwarded_or_parked.

(* path discovery: the announcement for network d releases the packets parked for d, each exactly once and in
   order, to the announcing router; nothing remains parked for d *)
Theorem C06_pending_released_once : forall n i ai src dst d l n' acts,
  nth_adapter n i = Some ai -> modelled_config n = true -> d < 65536 ->
  pending_wf (pending n) -> pending_get (pending n) d = Some l ->
  process_npdu n i src dst (i_am [d]) = (n', acts) ->
  acts = (if is_router n then map (fun j => Tx j LBcast (i_am [d])) (other_ports n i) else [])
         ++ map (fun q => Tx i (LStation src) q) l
  /\ pending_get (pending n') d = None /\ pending_wf (pending n').
Proof. exact i_am_releases_parked. Qed.
Print Assumptions C06_pending_released_once.

(* ... and for a burst: a node that knows no path to network dnet is handed several packets for it back to back
   (unicasts SUni m data, remote broadcasts SBc data).  The first starts the discovery, all are parked.  When the
   announcement for dnet arrives, the node transmits the relays (if it is a router) and then every parked packet —
   those parked earlier, then the burst in submission order — each exactly once, to the announcing router, and each
   WITH the DADR it was submitted with: sub_npdu dnet s is (DStation dnet m | DBcast dnet), hop count 255, no SADR,
   payload unchanged.  Nothing remains parked for dnet. *)
Theorem C06_pending_released_once_with_dadr : forall n la dnet s0 subs i ai src dst n'' acts,
  nth_adapter n (local_idx n) = Some la -> modelled_config n = true ->
  optN_eqb (Some dnet) (a_net la) = false -> find_path n dnet = None ->
  dnet < 65536 -> pending_wf (pending n) -> nth_adapter n i = Some ai ->
  process_npdu (submit_all n dnet (s0 :: subs)) i src dst (i_am [dnet]) = (n'', acts) ->
  acts = (if is_router n then map (fun j => Tx j LBcast (i_am [dnet])) (other_ports n i) else [])
         ++ map (fun q => Tx i (LStation src) q) (parked_for n dnet ++ map (sub_npdu dnet) (s0 :: subs))
  /\ pending_get (pending n'') dnet = None /\ pending_wf (pending n'').
Proof. exact burst_released_once_with_dadr. Qed.
Print Assumptions C06_pending_released_once_with_dadr.

(* termination of forwarding, per step and for every destination kind: every copy made has a strictly smaller
   hop count and at most (number of adapters + 1) copies are made *)
Theorem C06_forwarding_step_decreases : forall n i src dst p n' acts,
  process_npdu n i src dst p = (n', acts) ->
  (length (filter is_fwd acts) <= S (length (adapters n)))%nat /\
  forall j d q, In (Fwd j d q) acts -> n_hop q < n_hop p.
Proof.
  intros n i src dst p n' acts H. split; [exact (thm_fanout _ _ _ _ _ _ _ H)|].
  intros j d q Hin. destruct (thm_hop_decrement _ _ _ _ _ _ _ _ _ _ H Hin) as (_ & E & _).
  rewrite <- E. apply N.lt_add_pos_r. reflexivity.
Qed.
Print Assumptions C06_forwarding_step_decreases.

(* ... and globally: on EVERY topology (cycles, wrong or looping routes included), if the frames in flight are
   application-layer messages and every router has *some* path — a directly connected network or a cached next
   hop — for each remote network they are addressed to (so that no path discovery starts), the internetwork
   reaches quiescence.  Measure: sum over the frames in flight of K^(hop+1) (1 for last-leg frames),
   K = 1 + max LAN size * (1 + max adapters).  The hypothesis is preserved by the run because learning from
   SADRs never removes a cache entry. *)
Theorem C06_forwarding_terminates : forall w,
  Forall app_frame (queue w) ->
  (forall f d wn, In f (queue w) -> target (f_npdu f) = Some d -> In wn (nodes w) -> routable (w_node wn) d) ->
  exists k, queue (run k w) = [].
Proof. exact forwarding_terminates. Qed.
Print Assumptions C06_forwarding_terminates.

(* at most once, globally, for unicasts, on EVERY topology: a link-unicast application frame (routed towards a
   remote station, or on its last leg) that is alone in flight never multiplies, and over the whole run at most
   one PDU is handed to any application (and then the run is over).  Hypotheses: distinct link addresses on each
   LAN; every router has some path for the destination network.  Together with
   C06_local_unicast_only_addressee this is "the addressed station and nobody else, at most once"; that it does
   arrive needs correct caches on a loop-free topology (not proved universally; simulation). *)
Theorem C06_unicast_at_most_once : forall k w f,
  queue w = [f] -> uni_frame f -> lans_distinct (lans w) (nodes w) ->
  (forall d, target (f_npdu f) = Some d -> all_routable (nodes w) d) ->
  exists osn, trace (run k w) = osn ++ trace w /\ (ups osn <= 1)%nat /\
              (length (queue (run k w)) <= 1)%nat /\
              (ups osn = 1%nat -> queue (run k w) = []).
Proof. exact unicast_at_most_once. Qed.
Print Assumptions C06_unicast_at_most_once.

(* a local broadcast stays on its network, each recipient at most once — globally, on every topology in which no
   node has two ports on one LAN: a frame without DADR (local unicast / local broadcast / last leg of a routed
   packet or remote broadcast) that is alone in flight is gone after one step with nothing new in flight, and the
   deliveries it caused went to pairwise different nodes attached to that LAN *)
Theorem C06_local_frame_stays_once : forall w f,
  queue w = [f] -> n_dadr (f_npdu f) = None -> n_msg (f_npdu f) = None ->
  NoDup (map fst (lan_members (lans w) (f_lan f))) ->
  exists w' osn, step w = Some w' /\ queue w' = [] /\ trace w' = osn ++ OFrame f :: trace w /\
                 NoDup (hearers osn) /\
                 (forall x, In x (hearers osn) -> In x (map fst (lan_members (lans w) (f_lan f)))).
Proof. exact local_frame_dies. Qed.
Print Assumptions C06_local_frame_stays_once.

(* the mechanism that stops a packet which has gone round a cycle back to a router of its source network *)
Theorem C06_spoof_dropped : forall n i src dst p snet sm j,
  n_sadr p = Some (snet, sm) -> find_net n (Some snet) = Some j ->
  modelled_config n = true -> nth_adapter n i <> None ->
  process_npdu n i src dst p = (n, []).
Proof. exact spoof_dropped. Qed.
Print Assumptions C06_spoof_dropped.

(* reply routability, first hop (PARTIAL for C06_reply_routable: the remaining hops are the tree theorems):
   a station that was handed a routed packet showing source (sn, sm) has learned from that packet that sn is
   reached through the delivering router, and its reply to the source shown leaves at once for that router with
   DADR = the source shown and a full hop count *)
Theorem C06_reply_routable_partial : forall n a src dst p n' acts sn sm d x data,
  adapters n = [a] ->
  process_npdu n 0 src dst p = (n', acts) ->
  n_sadr p = Some (sn, sm) -> In (Up (ARS sn sm) d x) acts ->
  a_net a <> Some sn -> pending_get (pending n) sn = None ->
  indication n' (ARS sn sm) data
  = (n', [Tx 0 (LStation src) (mkNpdu (Some (DStation sn sm)) None 255 None data)]).
Proof. exact reply_goes_back_via_delivering_router. Qed.
Print Assumptions C06_reply_routable_partial.

(* forwarding of global broadcasts terminates on EVERY topology — cycles, wrong caches, any node state: whenever
   all frames in flight are application-layer global broadcasts the internetwork reaches quiescence
   (measure: sum over the frames in flight of K^hop, K = 1 + max LAN size * (1 + max adapters)) *)
Theorem C06_global_broadcast_terminates : forall w,
  Forall gb_frame (queue w) -> exists k, queue (run k w) = [].
Proof. exact global_broadcast_terminates. Qed.
Print Assumptions C06_global_broadcast_terminates.

Theorem C06_global_broadcast_from_quiet_terminates : forall w who data,
  queue w = [] -> exists k, queue (run k (submit w who AGB data)) = [].
Proof. exact global_broadcast_from_quiet_terminates. Qed.
Print Assumptions C06_global_broadcast_from_quiet_terminates.

(* C06_announcements_terminate is FALSE of the code: on a ring of three routers with cold caches one remote
   unicast starts a relay of I-Am-Router-To-Network messages that never stops (the state of all nodes and the
   queue after 9 steps recurs every 3 steps); the payload itself is delivered exactly once. *)
Theorem C06_cycle_discovery_refuted :
  (forall k, queue (run k ring3_send) <> []) /\
  filter (fun o => match o with OUp _ _ _ _ => true | _ => false end) (trace (run 12 ring3_send))
  = [OUp 5 (ARS 1 [1]) (ALS [1]) [16; 99; 7]].
Proof. split; [exact ring3_never_quiet|exact ring3_payload_delivered]. Qed.
Print Assumptions C06_cycle_discovery_refuted.

Definition ups_of (w : world) : list obs :=
  filter (fun o => match o with OUp _ _ _ _ => true | _ => false end) (rev (trace w)).

(* C06_tree_unicast_once, PARTIAL: the three steps of the induction along a correct route, each an exact
   computation of what the node does (any state otherwise).  Missing: the induction itself over a loop-free
   topology with warm caches (that the `find_path` / `find_net` hypotheses hold at every router of the unique
   path), and hence "arrives"; "at most once, nobody else" is C06_unicast_at_most_once. *)
(* the originating station with a cached path puts exactly one frame on its LAN: to the recorded router *)
Theorem C06_tree_unicast_once_partial_origin : forall n a d dm m data,
  adapters n = [a] -> optN_eqb (Some d) (a_net a) = false ->
  pending_get (pending n) d = None -> cache_get (rcache n) (a_net a) d = Some m ->
  indication n (ARS d dm) data = (n, [Tx 0 (LStation m) (mkNpdu (Some (DStation d dm)) None 255 None data)]).
Proof. exact station_sends_unicast. Qed.
Print Assumptions C06_tree_unicast_once_partial_origin.

(* an intermediate router makes exactly one copy: to the cached next hop, hop - 1, DADR kept, SADR = originator *)
Theorem C06_tree_unicast_once_partial_router : forall n i ai inet src dst p d dm j m',
  nth_adapter n i = Some ai -> modelled_config n = true -> is_router n = true ->
  a_net ai = Some inet ->
  n_msg p = None -> n_dadr p = Some (DStation d dm) -> n_hop p <> 0 ->
  (forall snet sm, n_sadr p = Some (snet, sm) -> find_net n (Some snet) = None /\ snet <> d) ->
  find_net n (Some d) = None ->
  find_path n d = Some (j, m') ->
  process_npdu n i src dst p =
    (learned n ai src p,
     [Fwd j (LStation m') (mkNpdu (n_dadr p) (Some (fwd_sadr inet src p)) (n_hop p - 1) None (n_data p))]).
Proof. exact router_forwards_unicast. Qed.
Print Assumptions C06_tree_unicast_once_partial_router.

(* the last router makes exactly one copy: on the destination network, link-addressed to the station, DADR removed *)
Theorem C06_tree_unicast_once_partial_last_router : forall n i ai inet src dst p d dm j la,
  nth_adapter n i = Some ai -> nth_adapter n (local_idx n) = Some la ->
  modelled_config n = true -> is_router n = true ->
  a_net ai = Some inet ->
  n_msg p = None -> n_dadr p = Some (DStation d dm) -> n_hop p <> 0 ->
  (forall snet sm, n_sadr p = Some (snet, sm) -> find_net n (Some snet) = None) ->
  find_net n (Some d) = Some j -> j <> i ->
  optN_eqb (Some d) (a_net ai) = false -> not_for_me la d dm = true ->
  process_npdu n i src dst p =
    (learned n ai src p,
     [Fwd j (LStation dm) (mkNpdu None (Some (fwd_sadr inet src p)) (n_hop p - 1) None (n_data p))]).
Proof. exact last_router_delivers. Qed.
Print Assumptions C06_tree_unicast_once_partial_last_router.

(* the station hands the payload up exactly once and shows the originator's network and address *)
Theorem C06_tree_unicast_once_partial_station : forall n a src dst p sn sm,
  adapters n = [a] -> has_app n = true ->
  n_msg p = None -> n_dadr p = None -> apdu_ok (n_data p) = true ->
  n_sadr p = Some (sn, sm) -> optN_eqb (a_net a) (Some sn) = false ->
  process_npdu n 0 src dst p = (learned n a src p, [Up (ARS sn sm) (ldest_to_addr dst) (n_data p)]).
Proof. exact station_hands_up. Qed.
Print Assumptions C06_tree_unicast_once_partial_station.

(* ... and their composition, by induction on a route of ANY length: if the frame alone in flight follows a
   consistent route (`arrives`: at every hop exactly one member of the LAN has the link address; each router on the
   way has the destination network directly connected or a cached next hop whose port leads to the next LAN; the
   SADR network is not directly connected to any router on the way and differs from the destination network; the
   hop count suffices; the last LAN has the addressed station with an application), then the run ends with an empty
   queue, stays there for ever, and exactly one PDU has been handed up: the unchanged payload, at the addressed
   station, showing the originator's network and address.  This is C06_tree_unicast_once with "consistent route"
   in place of "loop-free topology with warm caches"; that the latter implies the former (graph theory on the
   unique tree path) is what remains unproved. *)
Theorem C06_tree_unicast_once_partial : forall w f tgt s dd x,
  queue w = [f] -> arrives (lans w) (nodes w) f tgt s dd x ->
  exists k osn, queue (run k w) = [] /\ (forall k', (k <= k')%nat -> run k' w = run k w) /\
                trace (run k w) = osn ++ trace w /\ oups osn = [OUp tgt s dd x].
Proof. exact route_arrives_exactly_once. Qed.
Print Assumptions C06_tree_unicast_once_partial.

(* C06_tree_remote_broadcast_once, PARTIAL in the same sense: a remote broadcast alone in flight that follows a
   consistent route of ANY length (`bcast_arrives`: as for the unicast; the routers on the way carry no application;
   on the target LAN no node has two ports and every member is either a listening station — one adapter, an
   application, not the sender, source network not its own — or a node without application) ends with an empty
   queue, and the nodes that were handed the payload are exactly the listening stations of the target network,
   each once (hs is that list, in reverse LAN order).  Missing: that a loop-free warm topology yields the route. *)
Theorem C06_tree_remote_broadcast_once_partial : forall lns ns f hs,
  bcast_arrives lns ns f hs ->
  forall w, lans w = lns -> nodes w = ns -> queue w = [f] ->
  exists k osn, queue (run k w) = [] /\ trace (run k w) = osn ++ trace w /\ hearers osn = hs.
Proof. exact bcast_route_arrives. Qed.
Print Assumptions C06_tree_remote_broadcast_once_partial.

(* ================= loop-free internetworks with warm caches =================
   `internet_ok`: the LAN member lists and the nodes' ports agree, link addresses are distinct on each LAN, no node
   has two ports on one LAN, every node is a router (>= 2 ports on different LANs, every port bound with number and
   address, no application) or a station (one port, told nothing / its address / network and address, application).
   `tree_to d lv up par`: loop-free as seen from network d — every LAN has a level lv (router hops to d, lv d = 0),
   every router has exactly one port `up` towards d and its other ports are on LANs one level further away, every
   LAN other than d has a router port `par` that leads towards d — and warm towards d: every router not attached
   to d has as its path to d exactly (up port, address of the par port of its up-network).  (A connected bipartite
   graph of LANs and routers is a tree iff it has such a level structure; that equivalence is not formalised.) *)

(* C06_tree_unicast_once: on a loop-free internetwork with warm caches a unicast from a station on network s to
   station (d, dm) ends with an empty queue, stays quiet for ever, and exactly one PDU was handed up: the unchanged
   payload, at the addressed station, showing the originator's network and address.  Any cache contents about other
   networks, any parked packets elsewhere. *)
Theorem C06_tree_unicast_once : forall w d lv up par src ws s smac a_s tgt wt dm a_t data mR,
  internet_ok (lans w) (nodes w) -> tree_to (lans w) (nodes w) d lv up par ->
  queue w = [] ->
  In (tgt, 0%nat) (lan_members (lans w) d) -> nth_error (nodes w) tgt = Some wt ->
  w_ports wt = [(d, dm)] -> adapters (w_node wt) = [a_t] -> (a_net a_t = None \/ a_net a_t = Some d) ->
  has_app (w_node wt) = true ->
  nth_error (nodes w) src = Some ws -> w_ports ws = [(s, smac)] -> adapters (w_node ws) = [a_s] ->
  (a_net a_s = None \/ a_net a_s = Some s) ->
  (0 < lv s <= 255)%nat ->
  pending_get (pending (w_node ws)) d = None ->
  port_mac (nodes w) (par s) = Some mR -> cache_get (rcache (w_node ws)) (a_net a_s) d = Some mR ->
  apdu_ok data = true ->
  let w0 := submit w src (ARS d dm) data in
  exists k osn, queue (run k w0) = [] /\ (forall k', (k <= k')%nat -> run k' w0 = run k w0) /\
                trace (run k w0) = osn ++ trace w /\ oups osn = [OUp tgt (ARS s smac) (ALS dm) data].
Proof. exact tree_unicast_once. Qed.
Print Assumptions C06_tree_unicast_once.

(* C06_tree_remote_broadcast_once: the nodes handed the payload are exactly the nodes with an application on the
   target network — its stations — each once (hearers lists them in reverse LAN order) *)
Theorem C06_tree_remote_broadcast_once : forall w d lv up par src ws s smac a_s data mR,
  internet_ok (lans w) (nodes w) -> tree_to (lans w) (nodes w) d lv up par ->
  queue w = [] ->
  nth_error (nodes w) src = Some ws -> w_ports ws = [(s, smac)] -> adapters (w_node ws) = [a_s] ->
  (a_net a_s = None \/ a_net a_s = Some s) ->
  (0 < lv s <= 255)%nat ->
  pending_get (pending (w_node ws)) d = None ->
  port_mac (nodes w) (par s) = Some mR -> cache_get (rcache (w_node ws)) (a_net a_s) d = Some mR ->
  apdu_ok data = true ->
  let w0 := submit w src (ARB d) data in
  exists k osn, queue (run k w0) = [] /\ (forall k', (k <= k')%nat -> run k' w0 = run k w0) /\
                trace (run k w0) = osn ++ trace w /\
                hearers osn = rev (map fst (filter (appb (nodes w)) (lan_members (lans w) d))).
Proof. exact tree_remote_broadcast_once. Qed.
Print Assumptions C06_tree_remote_broadcast_once.

(* C06_tree_global_broadcast_once.  `tree_from s lv up par`: loop-free as seen from the source network s — levels
   (lv s = 0, every inhabited LAN has lv < 255 and lv L = 0 only for s), one up-port per router with its other
   ports one level further out, and on every LAN other than s exactly one down-port, `par` (tf_unique).  No
   hypothesis on caches or parked packets.  A global broadcast from a station on s ends with an empty queue, stays
   quiet for ever, and the nodes handed the payload are exactly the stations of the whole internetwork other than
   the originator, each exactly once (NoDup).  Proof: the frames in flight are always the copies ff L for a
   duplicate-free list of LANs closed under "child network of a served LAN" (invariant Inv, NetFlood.v); quiescence
   by C06_global_broadcast_terminates; every inhabited LAN is served by induction on its level. *)
Theorem C06_tree_global_broadcast_once : forall w s lv up par src ws smac data,
  internet_ok (lans w) (nodes w) -> tree_from (lans w) (nodes w) s lv up par -> queue w = [] ->
  nth_error (nodes w) src = Some ws -> w_ports ws = [(s, smac)] -> station_shape ws -> apdu_ok data = true ->
  let w0 := submit w src AGB data in
  exists k osn, queue (run k w0) = [] /\ (forall k', (k <= k')%nat -> run k' w0 = run k w0) /\
    trace (run k w0) = osn ++ trace w /\ NoDup (hearers osn) /\
    forall who, In who (hearers osn) <->
                (who <> src /\ exists wn, nth_error (nodes w) who = Some wn /\ station_shape wn).
Proof. exact tree_global_broadcast_once. Qed.
Print Assumptions C06_tree_global_broadcast_once.

(* C06_reply_routable, all hops: on a loop-free internetwork that is warm towards d (tree_to) and in which NOBODY
   knows anything about network s beforehand, a unicast from station A on s to station B = (d, dm) is delivered
   exactly once at B showing (s, smac), and B's reply to the source shown is then delivered exactly once at A,
   showing (d, dm), after which the internetwork is quiet for ever: every router on the way has learned the way
   back from the SADR of the request (learned_path_back), and B has learned the last router.  (With caches that
   already hold entries about s the statement needs those entries to be correct; the cold case is the one in
   which reply routability rests on the source address shown alone.) *)
Theorem C06_reply_routable : forall w d lv up par srcn ws s smac a_s tgt wt dm a_t data rdata mR,
  internet_ok (lans w) (nodes w) -> tree_to (lans w) (nodes w) d lv up par -> queue w = [] ->
  nth_error (nodes w) srcn = Some ws -> w_ports ws = [(s, smac)] -> adapters (w_node ws) = [a_s] ->
  (a_net a_s = None \/ a_net a_s = Some s) -> has_app (w_node ws) = true ->
  In (tgt, 0%nat) (lan_members (lans w) d) -> nth_error (nodes w) tgt = Some wt ->
  w_ports wt = [(d, dm)] -> adapters (w_node wt) = [a_t] -> (a_net a_t = None \/ a_net a_t = Some d) ->
  has_app (w_node wt) = true ->
  (0 < lv s <= 255)%nat ->
  pending_get (pending (w_node ws)) d = None -> pending_get (pending (w_node wt)) s = None ->
  port_mac (nodes w) (par s) = Some mR -> cache_get (rcache (w_node ws)) (a_net a_s) d = Some mR ->
  apdu_ok data = true -> apdu_ok rdata = true ->
  (forall who wn, nth_error (nodes w) who = Some wn -> forall x, cache_get (rcache (w_node wn)) x s = None) ->
  let w0 := submit w srcn (ARS d dm) data in
  exists k1 osn1,
    queue (run k1 w0) = [] /\ trace (run k1 w0) = osn1 ++ trace w /\
    oups osn1 = [OUp tgt (ARS s smac) (ALS dm) data] /\
    let w2 := submit (run k1 w0) tgt (ARS s smac) rdata in
    exists k2 osn2,
      queue (run k2 w2) = [] /\ (forall k', (k2 <= k')%nat -> run k' w2 = run k2 w2) /\
      trace (run k2 w2) = osn2 ++ trace (run k1 w0) /\
      oups osn2 = [OUp srcn (ARS d dm) (ALS smac) rdata].
Proof. exact tree_reply_routable. Qed.
Print Assumptions C06_reply_routable.

(* the hypotheses of the tree theorems are decidable: boolean checkers with soundness.  The check evaluates them
   inside Coq on the model worlds of the random trees it simulates (case kind `tree-cert`: levels, up-ports and
   parent ports computed by the harness by breadth-first search, caches installed as in the warm scenarios), so
   the tree theorems apply to those concrete internetworks, whose complete traces are in turn compared with the
   implementation. *)
Theorem C06_certificate_checkers_sound : forall lns ns, internet_okb lns ns = true ->
  internet_ok lns ns /\
  (forall d lv up par, tree_tob lns ns d lv up par = true -> tree_to lns ns d lv up par) /\
  (forall s lv up par, tree_fromb lns ns s lv up par = true -> tree_from lns ns s lv up par).
Proof. exact checkers_sound. Qed.
Print Assumptions C06_certificate_checkers_sound.

(* tree_to is exactly "loop-free seen from d" (tree_from, which adds uniqueness of the parent port) together with
   "warm towards d" (every router not attached to d routes d through its up-port to the parent port of its
   up-network) *)
Theorem C06_loop_free_warm_is_tree_to : forall lns ns d lv up par,
  tree_from lns ns d lv up par -> warm_to ns d lv up par -> tree_to lns ns d lv up par.
Proof. exact loop_free_warm_tree_to. Qed.
Print Assumptions C06_loop_free_warm_is_tree_to.

(* C06 local broadcast, in full and on EVERY internetwork (no tree needed): it is gone after one step with nothing
   new in flight (it stays on its network), and the nodes handed the payload are exactly the other stations of
   that network, each once *)
Theorem C06_local_broadcast_once : forall w src ws s smac data,
  internet_ok (lans w) (nodes w) -> queue w = [] ->
  nth_error (nodes w) src = Some ws -> w_ports ws = [(s, smac)] -> station_shape ws -> apdu_ok data = true ->
  let w0 := submit w src ALB data in
  exists osn, queue (run 1 w0) = [] /\ (forall k', (1 <= k')%nat -> run k' w0 = run 1 w0) /\
    trace (run 1 w0) = osn ++ trace w /\ NoDup (hearers osn) /\
    forall who, In who (hearers osn) <->
      (who <> src /\ exists wn m, nth_error (nodes w) who = Some wn /\ station_shape wn /\ w_ports wn = [(s, m)]).
Proof. exact local_broadcast_once. Qed.
Print Assumptions C06_local_broadcast_once.

(* C06_announcements_terminate, PARTIAL (loop-free internetworks; the general statement is refuted by
   C06_cycle_discovery_refuted): an I-Am-Router-To-Network broadcast in flight on LAN L0, sent by member x0, with
   nothing parked anywhere: the relays stop, no LAN carries more than one copy (NoDup of the LANs of the frames in
   the trace), and nothing is handed to any application.  Missing for full cold discovery on trees: the
   Who-Is-Router-To-Network relays and the release of parked packets interleaved with the announcements. *)
Theorem C06_announcements_terminate_partial : forall w L0 lv up par x0 m0 nets,
  internet_ok (lans w) (nodes w) -> tree_from (lans w) (nodes w) L0 lv up par ->
  In x0 (lan_members (lans w) L0) -> port_of (nodes w) x0 = Some (L0, m0) ->
  Forall (fun d => d < 65536) nets ->
  (forall who wn, nth_error (nodes w) who = Some wn -> pending (w_node wn) = []) ->
  queue w = [mkFrame L0 m0 LBcast (i_am nets)] ->
  exists k osn, queue (run k w) = [] /\ trace (run k w) = osn ++ trace w /\
                hearers osn = [] /\ NoDup (frame_lans osn).
Proof. exact announcement_terminates_on_tree. Qed.
Print Assumptions C06_announcements_terminate_partial.

(* route-aware operation (settings.route_aware): the source shown carries a route — the link source of the
   delivering frame (up_route) — and a destination that carries a route takes the early branch of indication
   (indication_routed): it is sent straight to that router on the local adapter, and the address asked for
   continues as DADR whenever it is remote or global, with a full hop count *)
Theorem C06_route_aware_keeps_dadr : forall n la d m route data,
  nth_adapter n (local_idx n) = Some la ->
  indication_routed n (ARS d m) route data
  = (n, [Tx (local_idx n) (LStation route) (mkNpdu (Some (DStation d m)) None 255 None data)]).
Proof. intros n la d m route data H. unfold indication_routed. rewrite H. reflexivity. Qed.
Print Assumptions C06_route_aware_keeps_dadr.

(* C06_reply_routable with route_aware on: B is shown s:smac@rt with rt = link source of the frame lf that delivered
   the request, and replies to exactly that; same hypotheses as C06_reply_routable except that B needs no cache
   entry and parks nothing *)
Theorem C06_reply_routable_route_aware : forall w d lv up par srcn ws s smac a_s tgt wt dm a_t data rdata mR,
  internet_ok (lans w) (nodes w) -> tree_to (lans w) (nodes w) d lv up par -> queue w = [] ->
  nth_error (nodes w) srcn = Some ws -> w_ports ws = [(s, smac)] -> adapters (w_node ws) = [a_s] ->
  (a_net a_s = None \/ a_net a_s = Some s) -> has_app (w_node ws) = true ->
  In (tgt, 0%nat) (lan_members (lans w) d) -> nth_error (nodes w) tgt = Some wt ->
  w_ports wt = [(d, dm)] -> adapters (w_node wt) = [a_t] -> (a_net a_t = None \/ a_net a_t = Some d) ->
  has_app (w_node wt) = true ->
  (0 < lv s <= 255)%nat ->
  pending_get (pending (w_node ws)) d = None ->
  port_mac (nodes w) (par s) = Some mR -> cache_get (rcache (w_node ws)) (a_net a_s) d = Some mR ->
  apdu_ok data = true -> apdu_ok rdata = true ->
  (forall who wn, nth_error (nodes w) who = Some wn -> forall x, cache_get (rcache (w_node wn)) x s = None) ->
  let w0 := submit w srcn (ARS d dm) data in
  exists k1 lf rest,
    queue (run k1 w0) = [] /\
    trace (run k1 w0) = (OUp tgt (ARS s smac) (ALS dm) data :: OFrame lf :: rest) ++ trace w /\
    oups (OUp tgt (ARS s smac) (ALS dm) data :: OFrame lf :: rest) = [OUp tgt (ARS s smac) (ALS dm) data] /\
    up_route (w_node wt) 0 (f_src lf) (f_npdu lf) = Some (f_src lf) /\
    let w2 := submit_routed (run k1 w0) tgt (ARS s smac) (f_src lf) rdata in
    exists k2 osn2,
      queue (run k2 w2) = [] /\ (forall k', (k2 <= k')%nat -> run k' w2 = run k2 w2) /\
      trace (run k2 w2) = osn2 ++ trace (run k1 w0) /\
      oups osn2 = [OUp srcn (ARS d dm) (ALS smac) rdata].
Proof. exact tree_reply_routable_route_aware. Qed.
Print Assumptions C06_reply_routable_route_aware.

(* C06_reply_routable is FALSE of the code when the originator is an application on a router: router with ports
   (net 1, net 2), local adapter = net 2, broadcasts globally; the station on net 1 is shown the router's net-1
   address in local form; its reply to that address arrives on the non-local adapter and is handed to nobody. *)
Definition router_app_world : world :=
  mkWorld
    [mkW (mkNode [mkAd (Some 1) (Some [10]); mkAd (Some 2) (Some [10])] true [] []) [(1, [10]); (2, [10])];
     mkW (mkNode [mkAd (Some 1) (Some [1])] true [] []) [(1, [1])];
     mkW (mkNode [mkAd (Some 2) (Some [1])] true [] []) [(2, [1])]]
    [(1, [(0, 0); (1, 0)]%nat); (2, [(0, 1); (2, 0)]%nat)] [] [].
Theorem C06_reply_routable_refuted :
  let w1 := run 20 (submit router_app_world 0 AGB [16; 99; 1]) in
  ups_of w1 = [OUp 1 (ALS [10]) AGB [16; 99; 1]; OUp 2 (ALS [10]) AGB [16; 99; 1]] /\ queue w1 = [] /\
  let w2 := run 20 (submit (mkWorld (nodes w1) (lans w1) [] []) 1 (ALS [10]) [16; 99; 2]) in
  queue w2 = [] /\ ups_of w2 = [] /\
  (* whereas the station on the local adapter's network does reach it *)
  ups_of (run 20 (submit (mkWorld (nodes w1) (lans w1) [] []) 2 (ALS [10]) [16; 99; 3]))
  = [OUp 0 (ALS [1]) (ALS [10]) [16; 99; 3]].
Proof. vm_compute. repeat split. Qed.
Print Assumptions C06_reply_routable_refuted.

(* ---- non-vacuity *)
(* a three-port router forwards a global broadcast received on port 0 to ports 1 and 2 with hop - 1 and SADR *)
Example C06_forward_example :
  snd (process_npdu (mkNode [mkAd (Some 1) (Some [10]); mkAd (Some 2) (Some [10]); mkAd (Some 3) (Some [10])] false [] [])
                    0 [1] LBcast (mkNpdu (Some DGlobal) None 255 None [16; 99; 1]))
  = [Fwd 1 LBcast (mkNpdu (Some DGlobal) (Some (1, [1])) 254 None [16; 99; 1]);
     Fwd 2 LBcast (mkNpdu (Some DGlobal) (Some (1, [1])) 254 None [16; 99; 1])].
Proof. vm_compute. reflexivity. Qed.

(* a station delivers a routed unicast addressed to it and shows the originator *)
Example C06_deliver_example :
  snd (process_npdu (mkNode [mkAd (Some 4) (Some [2])] true [] [])
                    0 [11] (LStation [2]) (mkNpdu None (Some (1, [1])) 0 None [16; 99; 1]))
  = [Up (ARS 1 [1]) (ALS [2]) [16; 99; 1]].
Proof. vm_compute. reflexivity. Qed.

(* a station that was told nothing hands down a unicast, a remote broadcast and another unicast for network 9 in
   one go; the announcement releases the three, in order, each with its DADR *)
Example C06_burst_example :
  let n := mkNode [mkAd None None] true [] [] in
  snd (process_npdu (submit_all n 9 [SUni [7] [16; 99; 1]; SBc [16; 99; 2]; SUni [8] [16; 99; 3]]) 0 [11] (LStation [2]) (i_am [9]))
  = [Tx 0 (LStation [11]) (mkNpdu (Some (DStation 9 [7])) None 255 None [16; 99; 1]);
     Tx 0 (LStation [11]) (mkNpdu (Some (DBcast 9)) None 255 None [16; 99; 2]);
     Tx 0 (LStation [11]) (mkNpdu (Some (DStation 9 [8])) None 255 None [16; 99; 3])].
Proof. vm_compute. reflexivity. Qed.

(* parked packet released by the announcement *)
Example C06_pending_example :
  let n := fst (indication (mkNode [mkAd (Some 4) (Some [2])] true [] []) (ARS 9 [7]) [16; 99; 1]) in
  pending_wf (pending n) /\ pending_get (pending n) 9 = Some [mkNpdu (Some (DStation 9 [7])) None 255 None [16; 99; 1]] /\
  snd (process_npdu n 0 [11] (LStation [2]) (i_am [9]))
  = [Tx 0 (LStation [11]) (mkNpdu (Some (DStation 9 [7])) None 255 None [16; 99; 1])].
Proof. vm_compute. repeat split. repeat constructor; intros []. Qed.

(* on the ring of three routers a global broadcast does terminate (5 frames); the stations on the other two networks each hear it twice — duplicates are possible on a cycle, non-termination is not *)
Example C06_ring_global_broadcast_example :
  let w := run 100 (submit ring3 3 AGB [16; 99; 9]) in
  Forall gb_frame (queue (submit ring3 3 AGB [16; 99; 9])) /\ queue w = [] /\
  map (fun o => match o with OUp who _ _ _ => who | _ => 0%nat end)
      (filter (fun o => match o with OUp _ _ _ _ => true | _ => false end) (rev (trace w))) = [4; 5; 5; 4]%nat.
Proof. vm_compute. repeat split. repeat constructor. Qed.

(* the hypotheses of C06_forwarding_terminates on a cycle with looping routes: the three ring routers each
   believe network 9 lies behind the next one; a unicast to network 9 is in flight, every router is `routable`,
   and the run does stop (here the SADR check drops it when it comes back to a router of network 1) *)
Definition ring3_looping : world :=
  mkWorld
    [mkW (mkNode [mkAd (Some 1) (Some [101]); mkAd (Some 2) (Some [101])] false [((Some 2, 9), [102])] []) [(1, [101]); (2, [101])];
     mkW (mkNode [mkAd (Some 2) (Some [102]); mkAd (Some 3) (Some [102])] false [((Some 3, 9), [103])] []) [(2, [102]); (3, [102])];
     mkW (mkNode [mkAd (Some 3) (Some [103]); mkAd (Some 1) (Some [103])] false [((Some 1, 9), [101])] []) [(3, [103]); (1, [103])];
     mkW (mkNode [mkAd (Some 1) (Some [1])] true [((Some 1, 9), [101])] []) [(1, [1])]]
    [(1, [(0, 0); (2, 1); (3, 0)]%nat); (2, [(0, 1); (1, 0)]%nat); (3, [(1, 1); (2, 0)]%nat)]
    [] [].
Example C06_forwarding_terminates_example :
  let w := submit ring3_looping 3 (ARS 9 [5]) [16; 99; 1] in
  world_routableb w = true /\ length (queue w) = 1%nat /\ queue (run 10 w) = [] /\ queue (run 2 w) <> [].
Proof. vm_compute. repeat split. discriminate. Qed.

(* ... and the hypotheses of C06_unicast_at_most_once hold for it as well (through their decidable forms) *)
Example C06_unicast_at_most_once_example :
  let w := submit ring3_looping 3 (ARS 9 [5]) [16; 99; 1] in
  exists f, queue w = [f] /\ uni_frameb f = true /\ lans_distinctb (lans w) (nodes w) = true /\
            world_routableb w = true.
Proof. eexists. vm_compute. repeat split. Qed.
(* on the warm tree the unicast is in fact delivered: exactly one Up (C06_tree_unicast_example below) *)

(* the hypotheses of the route-step theorems hold at router R0 of tree4 for a packet from network 1 to network 4
   (intermediate router), at R1 (last router) and at the station (4, [2]) *)
Example C06_route_step_example :
  let r0 := mkNode [mkAd (Some 1) (Some [10]); mkAd (Some 2) (Some [10]); mkAd (Some 3) (Some [10])] false [((Some 3, 4), [11])] [] in
  let r1 := mkNode [mkAd (Some 3) (Some [11]); mkAd (Some 4) (Some [11])] false [((Some 3, 1), [10]); ((Some 3, 2), [10])] [] in
  (modelled_config r0 = true /\ is_router r0 = true /\ find_net r0 (Some 4) = None /\ find_path r0 4 = Some (2%nat, [11])) /\
  (modelled_config r1 = true /\ is_router r1 = true /\ find_net r1 (Some 1) = None /\ find_net r1 (Some 4) = Some 1%nat /\
   nth_adapter r1 (local_idx r1) = Some (mkAd (Some 4) (Some [11]))) /\
  optN_eqb None (Some 1) = false.
Proof. vm_compute. repeat split. Qed.

(* a four-network tree (routers R0: nets 1,2,3; R1: nets 3,4) with correct caches: unicast, remote broadcast and
   global broadcast from the station on network 1 are delivered exactly once to exactly the right stations *)
Definition tree4 : world :=
  mkWorld
    [mkW (mkNode [mkAd (Some 1) (Some [10]); mkAd (Some 2) (Some [10]); mkAd (Some 3) (Some [10])] false
                 [((Some 3, 4), [11])] []) [(1, [10]); (2, [10]); (3, [10])];
     mkW (mkNode [mkAd (Some 3) (Some [11]); mkAd (Some 4) (Some [11])] false
                 [((Some 3, 1), [10]); ((Some 3, 2), [10])] []) [(3, [11]); (4, [11])];
     mkW (mkNode [mkAd (Some 1) (Some [1])] true [((Some 1, 2), [10]); ((Some 1, 3), [10]); ((Some 1, 4), [10])] []) [(1, [1])];
     mkW (mkNode [mkAd (Some 2) (Some [1])] true [] []) [(2, [1])];
     mkW (mkNode [mkAd None None] true [] []) [(3, [1])];
     mkW (mkNode [mkAd (Some 4) (Some [1])] true [] []) [(4, [1])];
     mkW (mkNode [mkAd None (Some [2])] true [] []) [(4, [2])]]
    [(1, [(0, 0); (2, 0)]%nat); (2, [(0, 1); (3, 0)]%nat); (3, [(0, 2); (1, 0); (4, 0)]%nat);
     (4, [(1, 1); (5, 0); (6, 0)]%nat)]
    [] [].

(* the route hypothesis of C06_tree_unicast_once_partial is satisfiable: on tree4 the unicast from the station on
   network 1 to station (4, [2]) follows a consistent route R0 -> R1 -> station *)
Ltac acc := unfold acceptor; split; [reflexivity|]; split; [apply nodupb_sound; vm_compute; reflexivity|];
            split; [vm_compute; auto 6|]; split; [reflexivity|eexists; reflexivity].
Example C06_tree_unicast_route_example :
  let w := submit tree4 2 (ARS 4 [2]) [16; 99; 1] in
  exists f, queue w = [f] /\ arrives (lans w) (nodes w) f 6 (ARS 1 [1]) (ALS [2]) [16; 99; 1].
Proof.
  eexists. split; [vm_compute; reflexivity|]. vm_compute.
  eapply arr_router with (who := 0%nat) (i := 0%nat) (inet := 1) (d := 4) (dm := [2]) (j := 2%nat) (m' := [11])
                         (lan' := 3) (mj := [10]); [acc | ..]; try reflexivity.
  - discriminate.
  - intros snet sm E. discriminate E.
  - vm_compute.
    eapply arr_last_router with (who := 1%nat) (i := 0%nat) (inet := 3) (d := 4) (dm := [2]) (j := 1%nat)
                                (lan' := 4) (mj := [11]); [acc | ..]; try reflexivity.
    + discriminate.
    + intros snet sm E. inversion E; subst. reflexivity.
    + discriminate.
    + vm_compute.
      eapply arr_station with (who := 6%nat); [acc | ..]; reflexivity.
Qed.

(* hypotheses of C06_local_frame_stays_once: a local broadcast on network 4 of tree4 (router R1 and two stations) *)
Example C06_local_broadcast_example :
  let w := submit tree4 5 ALB [16; 99; 4] in
  exists f, queue w = [f] /\ n_dadr (f_npdu f) = None /\ n_msg (f_npdu f) = None /\
            map fst (lan_members (lans w) (f_lan f)) = [1; 5; 6]%nat /\
            hearers (trace (run 5 w)) = [6%nat] /\ queue (run 5 w) = [].
Proof. eexists. vm_compute. repeat split. Qed.

(* the route hypothesis of C06_tree_remote_broadcast_once_partial on tree4: remote broadcast to network 4 from the
   station on network 1; the hearers are the two stations of network 4 *)
Example C06_tree_remote_broadcast_route_example :
  let w := submit tree4 2 (ARB 4) [16; 99; 2] in
  exists f hs, queue w = [f] /\ bcast_arrives (lans w) (nodes w) f hs /\ hs = [6; 5]%nat.
Proof.
  eexists. eexists. split; [vm_compute; reflexivity|]. split.
  - vm_compute.
    eapply barr_router with (who := 0%nat) (i := 0%nat) (inet := 1) (d := 4) (j := 2%nat) (m' := [11])
                            (lan' := 3) (mj := [10]); [acc | ..]; try reflexivity.
    + discriminate.
    + intros snet sm E. discriminate E.
    + vm_compute.
      eapply barr_last_router with (who := 1%nat) (i := 0%nat) (inet := 3) (d := 4) (j := 1%nat)
                                   (lan' := 4) (mj := [11]); [acc | ..]; try reflexivity.
      * discriminate.
      * intros snet sm E. inversion E; subst. reflexivity.
      * discriminate.
      * vm_compute. repeat constructor; cbn; intuition discriminate.
      * intros x Hx. vm_compute in Hx. destruct Hx as [Hx|[Hx|[Hx|[]]]]; subst x; vm_compute; auto.
  - vm_compute. reflexivity.
Qed.

Ltac split_lan lan :=
  repeat match goal with
  | |- context [N.eqb ?k lan] => destruct (N.eqb_spec k lan); [subst lan|]
  | H : context [N.eqb ?k lan] |- _ => destruct (N.eqb_spec k lan); [subst lan|]
  end.

(* the hypotheses of the tree theorems are satisfiable: tree4 is internet_ok and loop-free/warm towards network 4 *)
Example C06_tree4_internet_ok : internet_ok (lans tree4) (nodes tree4).
Proof.
  constructor.
  - intros lan x Hx. cbn [lans tree4 lan_members] in Hx. split_lan lan; cbn in Hx;
      repeat (destruct Hx as [Hx|Hx]; [subst x; eexists; reflexivity|]); contradiction.
  - intros [who p] lan m H. unfold port_of in H. cbn [fst snd nodes tree4] in H.
    do 7 (destruct who as [|who]; [do 3 (destruct p as [|p]; [cbn in H; inversion H; subst; cbn; auto 6|]); destruct p; discriminate|]).
    destruct who; discriminate.
  - intro lan. apply lans_distinctb_sound. reflexivity.
  - intro lan. cbn [lans tree4 lan_members]. split_lan lan; cbn; repeat constructor; cbn; intuition discriminate.
  - intros who w H. cbn [nodes tree4] in H.
    do 7 (destruct who as [|who]; [inversion H; subst;
      first [left; unfold router_shape; cbn; repeat split; [lia|repeat constructor; cbn; intuition discriminate]
            |right; unfold station_shape; cbn; do 3 eexists; repeat split; auto]|]).
    destruct who; discriminate.
Qed.

Definition lv4 (L : N) : nat := if L =? 4 then 0%nat else if L =? 3 then 1%nat else 2%nat.
Definition up4 (who : nat) : nat := match who with O => 2%nat | _ => 1%nat end.
Definition par4 (L : N) : nat * nat := if L =? 3 then (1, 0)%nat else if L =? 1 then (0, 0)%nat else (0, 1)%nat.

Example C06_tree4_tree_to_4 : tree_to (lans tree4) (nodes tree4) 4 lv4 up4 par4.
Proof.
  constructor.
  - reflexivity.
  - intros who w H Hsh. cbn [nodes tree4] in H.
    destruct who as [|[|who]].
    + inversion H; subst. exists 3, [10]. cbn. repeat split; try discriminate.
      * intros p lp mp Hp Hne. do 3 (destruct p as [|p]; [cbn in Hp; inversion Hp; subst; try reflexivity; try contradiction|]).
        destruct p; discriminate.
      * intros _. exists [11]. split; reflexivity.
    + inversion H; subst. exists 4, [11]. cbn. repeat split; try reflexivity.
      * intros p lp mp Hp Hne. do 2 (destruct p as [|p]; [cbn in Hp; inversion Hp; subst; try reflexivity; try contradiction|]).
        destruct p; discriminate.
      * intro C. contradiction.
    + exfalso. do 5 (destruct who as [|who]; [inversion H; subst; destruct Hsh as (Hl & _); cbn in Hl; lia|]).
      destruct who; discriminate.
  - intros L [[who p] [m Hx]] Hlv. unfold port_of in Hx. cbn [fst snd nodes tree4] in Hx.
    assert (HL : L = 1 \/ L = 2 \/ L = 3).
    { do 7 (destruct who as [|who]; [do 3 (destruct p as [|p]; [cbn in Hx; inversion Hx; subst; auto; try (exfalso; apply Hlv; reflexivity)|]); destruct p; discriminate|]).
      destruct who; discriminate. }
    destruct HL as [E|[E|E]]; subst L; cbn; (split; [auto 6|]); eexists; (split; [reflexivity|]);
      (split; [unfold router_shape; cbn; repeat split; [lia|repeat constructor; cbn; intuition discriminate]|discriminate]).
Qed.

Example C06_tree4_unicast_once :
  let w0 := submit tree4 2 (ARS 4 [2]) [16; 99; 1] in
  exists k osn, queue (run k w0) = [] /\ (forall k', (k <= k')%nat -> run k' w0 = run k w0) /\
                trace (run k w0) = osn ++ trace tree4 /\ oups osn = [OUp 6 (ARS 1 [1]) (ALS [2]) [16; 99; 1]].
Proof.
  eapply (tree_unicast_once tree4 4 lv4 up4 par4 2%nat _ 1 [1] _ 6%nat _ [2] _ [16; 99; 1] [10] C06_tree4_internet_ok C06_tree4_tree_to_4);
    try reflexivity; cbn; auto 6; try lia.
Qed.

Example C06_tree4_remote_broadcast_once :
  let w0 := submit tree4 2 (ARB 4) [16; 99; 2] in
  exists k osn, queue (run k w0) = [] /\ (forall k', (k <= k')%nat -> run k' w0 = run k w0) /\
                trace (run k w0) = osn ++ trace tree4 /\ hearers osn = [6; 5]%nat.
Proof.
  eapply (tree_remote_broadcast_once tree4 4 lv4 up4 par4 2%nat _ 1 [1] _ [16; 99; 2] [10] C06_tree4_internet_ok C06_tree4_tree_to_4);
    try reflexivity; cbn; auto 6; try lia.
Qed.

Definition lv1 (L : N) : nat := if L =? 1 then 0%nat else if L =? 4 then 2%nat else 1%nat.
Definition up1 (who : nat) : nat := 0%nat.
Definition par1 (L : N) : nat * nat := if L =? 2 then (0, 1)%nat else if L =? 3 then (0, 2)%nat else (1, 1)%nat.

Example C06_tree4_inhabited : forall L x m, port_of (nodes tree4) x = Some (L, m) -> L = 1 \/ L = 2 \/ L = 3 \/ L = 4.
Proof.
  intros L [who p] m Hx. unfold port_of in Hx. cbn [fst snd nodes tree4] in Hx.
  do 7 (destruct who as [|who]; [do 3 (destruct p as [|p]; [cbn in Hx; inversion Hx; subst; auto|]); destruct p; discriminate|]).
  destruct who; discriminate.
Qed.

(* tree4 is loop-free as seen from network 1 *)
Example C06_tree4_tree_from_1 : tree_from (lans tree4) (nodes tree4) 1 lv1 up1 par1.
Proof.
  constructor.
  - reflexivity.
  - intros L (x & m & Hx) Hlv. destruct (C06_tree4_inhabited _ _ _ Hx) as [E|[E|[E|E]]]; subst L; try reflexivity; discriminate.
  - intros L (x & m & Hx). destruct (C06_tree4_inhabited _ _ _ Hx) as [E|[E|[E|E]]]; subst L; cbn; lia.
  - intros who w H Hsh. cbn [nodes tree4] in H.
    destruct who as [|[|who]].
    + inversion H; subst. exists 1, [10]. cbn. split; [reflexivity|].
      intros p lp mp Hp Hne. do 3 (destruct p as [|p]; [cbn in Hp; inversion Hp; subst; try reflexivity; try contradiction|]).
      destruct p; discriminate.
    + inversion H; subst. exists 3, [11]. cbn. split; [reflexivity|].
      intros p lp mp Hp Hne. do 2 (destruct p as [|p]; [cbn in Hp; inversion Hp; subst; try reflexivity; try contradiction|]).
      destruct p; discriminate.
    + exfalso. do 5 (destruct who as [|who]; [inversion H; subst; destruct Hsh as (Hl & _); cbn in Hl; lia|]).
      destruct who; discriminate.
  - intros L (x & m & Hx) Hlv. destruct (C06_tree4_inhabited _ _ _ Hx) as [E|[E|[E|E]]]; subst L;
      try (exfalso; apply Hlv; reflexivity); cbn; (split; [auto 6|]); eexists; (split; [reflexivity|]);
      (split; [unfold router_shape; cbn; repeat split; [lia|repeat constructor; cbn; intuition discriminate]|discriminate]).
  - intros L [who p] w Hx Hw Hsh Hne. cbn [fst snd] in *. cbn [lans tree4 lan_members] in Hx.
    assert (who = 0%nat \/ who = 1%nat).
    { cbn [nodes tree4] in Hw. destruct who as [|[|who]]; auto.
      exfalso. do 5 (destruct who as [|who]; [inversion Hw; subst; destruct Hsh as (Hl & _); cbn in Hl; lia|]). destruct who; discriminate. }
    split_lan L; cbn in Hx; repeat (destruct Hx as [Hx|Hx]; [inversion Hx; subst; try reflexivity; try (exfalso; apply Hne; reflexivity); try (destruct H; discriminate)|]); try contradiction.
Qed.

Example C06_tree4_global_broadcast_once :
  let w0 := submit tree4 2 AGB [16; 99; 3] in
  exists k osn, queue (run k w0) = [] /\ (forall k', (k <= k')%nat -> run k' w0 = run k w0) /\
    trace (run k w0) = osn ++ trace tree4 /\ NoDup (hearers osn) /\
    forall who, In who (hearers osn) <->
                (who <> 2%nat /\ exists wn, nth_error (nodes tree4) who = Some wn /\ station_shape wn).
Proof.
  eapply (tree_global_broadcast_once tree4 1 lv1 up1 par1 2%nat _ [1] [16; 99; 3] C06_tree4_internet_ok C06_tree4_tree_from_1); try reflexivity.
  unfold station_shape. cbn. do 3 eexists. repeat split; auto.
Qed.

(* the four-network tree, cold about network 1: routes towards network 4 only *)
Definition tree4c : world :=
  mkWorld
    [mkW (mkNode [mkAd (Some 1) (Some [10]); mkAd (Some 2) (Some [10]); mkAd (Some 3) (Some [10])] false
                 [((Some 3, 4), [11])] []) [(1, [10]); (2, [10]); (3, [10])];
     mkW (mkNode [mkAd (Some 3) (Some [11]); mkAd (Some 4) (Some [11])] false [] []) [(3, [11]); (4, [11])];
     mkW (mkNode [mkAd (Some 1) (Some [1])] true [((Some 1, 4), [10])] []) [(1, [1])];
     mkW (mkNode [mkAd (Some 2) (Some [1])] true [] []) [(2, [1])];
     mkW (mkNode [mkAd None None] true [] []) [(3, [1])];
     mkW (mkNode [mkAd (Some 4) (Some [1])] true [] []) [(4, [1])];
     mkW (mkNode [mkAd None (Some [2])] true [] []) [(4, [2])]]
    [(1, [(0, 0); (2, 0)]%nat); (2, [(0, 1); (3, 0)]%nat); (3, [(0, 2); (1, 0); (4, 0)]%nat);
     (4, [(1, 1); (5, 0); (6, 0)]%nat)]
    [] [].
Example C06_tree4c_internet_ok : internet_ok (lans tree4c) (nodes tree4c).
Proof.
  constructor.
  - intros lan x Hx. cbn [lans tree4c lan_members] in Hx. split_lan lan; cbn in Hx;
      repeat (destruct Hx as [Hx|Hx]; [subst x; eexists; reflexivity|]); contradiction.
  - intros [who p] lan m H. unfold port_of in H. cbn [fst snd nodes tree4c] in H.
    do 7 (destruct who as [|who]; [do 3 (destruct p as [|p]; [cbn in H; inversion H; subst; cbn; auto 6|]); destruct p; discriminate|]).
    destruct who; discriminate.
  - intro lan. apply lans_distinctb_sound. reflexivity.
  - intro lan. cbn [lans tree4c lan_members]. split_lan lan; cbn; repeat constructor; cbn; intuition discriminate.
  - intros who w H. cbn [nodes tree4c] in H.
    do 7 (destruct who as [|who]; [inversion H; subst;
      first [left; unfold router_shape; cbn; repeat split; [lia|repeat constructor; cbn; intuition discriminate]
            |right; unfold station_shape; cbn; do 3 eexists; repeat split; auto]|]).
    destruct who; discriminate.
Qed.


Example C06_tree4c_tree_to_4 : tree_to (lans tree4c) (nodes tree4c) 4 lv4 up4 par4.
Proof.
  constructor.
  - reflexivity.
  - intros who w H Hsh. cbn [nodes tree4c] in H.
    destruct who as [|[|who]].
    + inversion H; subst. exists 3, [10]. cbn. repeat split; try discriminate.
      * intros p lp mp Hp Hne. do 3 (destruct p as [|p]; [cbn in Hp; inversion Hp; subst; try reflexivity; try contradiction|]).
        destruct p; discriminate.
      * intros _. exists [11]. split; reflexivity.
    + inversion H; subst. exists 4, [11]. cbn. repeat split; try reflexivity.
      * intros p lp mp Hp Hne. do 2 (destruct p as [|p]; [cbn in Hp; inversion Hp; subst; try reflexivity; try contradiction|]).
        destruct p; discriminate.
      * intro C. contradiction.
    + exfalso. do 5 (destruct who as [|who]; [inversion H; subst; destruct Hsh as (Hl & _); cbn in Hl; lia|]).
      destruct who; discriminate.
  - intros L [[who p] [m Hx]] Hlv. unfold port_of in Hx. cbn [fst snd nodes tree4c] in Hx.
    assert (HL : L = 1 \/ L = 2 \/ L = 3).
    { do 7 (destruct who as [|who]; [do 3 (destruct p as [|p]; [cbn in Hx; inversion Hx; subst; auto; try (exfalso; apply Hlv; reflexivity)|]); destruct p; discriminate|]).
      destruct who; discriminate. }
    destruct HL as [E|[E|E]]; subst L; cbn; (split; [auto 6|]); eexists; (split; [reflexivity|]);
      (split; [unfold router_shape; cbn; repeat split; [lia|repeat constructor; cbn; intuition discriminate]|discriminate]).
Qed.


Example C06_tree4c_round_trip :
  let w0 := submit tree4c 2 (ARS 4 [2]) [16; 99; 1] in
  exists k1 osn1,
    queue (run k1 w0) = [] /\ trace (run k1 w0) = osn1 ++ trace tree4c /\
    oups osn1 = [OUp 6 (ARS 1 [1]) (ALS [2]) [16; 99; 1]] /\
    let w2 := submit (run k1 w0) 6 (ARS 1 [1]) [16; 99; 2] in
    exists k2 osn2,
      queue (run k2 w2) = [] /\ (forall k', (k2 <= k')%nat -> run k' w2 = run k2 w2) /\
      trace (run k2 w2) = osn2 ++ trace (run k1 w0) /\
      oups osn2 = [OUp 2 (ARS 4 [2]) (ALS [1]) [16; 99; 2]].
Proof.
  eapply (tree_reply_routable tree4c 4 lv4 up4 par4 2%nat _ 1 [1] _ 6%nat _ [2] _ [16; 99; 1] [16; 99; 2] [10] C06_tree4c_internet_ok C06_tree4c_tree_to_4);
    try reflexivity; cbn; auto 6; try lia.
  intros who wn H x.
  do 7 (destruct who as [|who]; [inversion H; subst; clear H; unfold cache_get, key_eqb; cbn; rewrite ?andb_false_r; reflexivity|]).
  destruct who; discriminate.
Qed.

(* the checkers accept the example tree *)
Example C06_tree4_checkers :
  internet_okb (lans tree4) (nodes tree4) = true /\
  tree_tob (lans tree4) (nodes tree4) 4 lv4 up4 par4 = true /\
  tree_fromb (lans tree4) (nodes tree4) 1 lv1 up1 par1 = true.
Proof. vm_compute. repeat split. Qed.

Example C06_tree4_local_broadcast_once :
  let w0 := submit tree4 5 ALB [16; 99; 4] in
  exists osn, queue (run 1 w0) = [] /\ (forall k', (1 <= k')%nat -> run k' w0 = run 1 w0) /\
    trace (run 1 w0) = osn ++ trace tree4 /\ NoDup (hearers osn) /\
    forall who, In who (hearers osn) <->
      (who <> 5%nat /\ exists wn m, nth_error (nodes tree4) who = Some wn /\ station_shape wn /\ w_ports wn = [(4, m)]).
Proof.
  eapply (local_broadcast_once tree4 5%nat _ 4 [1] [16; 99; 4] C06_tree4_internet_ok); try reflexivity.
  unfold station_shape. cbn. do 3 eexists. repeat split; auto.
Qed.

(* router R1 of tree4 announces network 4 on network 3: certificate from the checkers, theorem applies *)
Example C06_tree4_announcement :
  let w := mkWorld (nodes tree4) (lans tree4) [mkFrame 3 [11] LBcast (i_am [4])] [] in
  exists k osn, queue (run k w) = [] /\ trace (run k w) = osn ++ trace w /\
                hearers osn = [] /\ NoDup (frame_lans osn).
Proof.
  intro w.
  set (lv3 := fun L : N => if L =? 3 then 0%nat else 1%nat).
  set (up3 := fun who : nat => match who with O => 2%nat | _ => 0%nat end).
  set (par3 := fun L : N => if L =? 1 then (0, 0)%nat else if L =? 2 then (0, 1)%nat else (1, 1)%nat).
  assert (Hok : internet_okb (lans tree4) (nodes tree4) = true) by (vm_compute; reflexivity).
  assert (Hfrom : tree_fromb (lans tree4) (nodes tree4) 3 lv3 up3 par3 = true) by (vm_compute; reflexivity).
  destruct (C06_certificate_checkers_sound _ _ Hok) as (Hio & _ & Hf).
  eapply (announcement_terminates_on_tree w 3 lv3 up3 par3 (1, 0)%nat [11] [4] Hio (Hf _ _ _ _ Hfrom)); try reflexivity.
  - cbn. auto.
  - repeat constructor.
  - intros who wn H. cbn [nodes] in H. do 7 (destruct who as [|who]; [inversion H; reflexivity|]). destruct who; discriminate.
Qed.

(* route-aware round trip on the cold tree: the request is delivered by router R1 ([11]); the reply to 1:[1]@[11] *)
Example C06_tree4c_round_trip_route_aware :
  let w1 := run 10 (submit tree4c 2 (ARS 4 [2]) [16; 99; 1]) in
  let w2 := run 10 (submit_routed w1 6 (ARS 1 [1]) [11] [16; 99; 2]) in
  queue w1 = [] /\ queue w2 = [] /\
  filter (fun o => match o with OUp _ _ _ _ => true | _ => false end) (rev (trace w2))
  = [OUp 6 (ARS 1 [1]) (ALS [2]) [16; 99; 1]; OUp 2 (ARS 4 [2]) (ALS [1]) [16; 99; 2]].
Proof. vm_compute. repeat split. Qed.

Example C06_tree_unicast_example :
  let w := run 100 (submit tree4 2 (ARS 4 [2]) [16; 99; 1]) in
  queue w = [] /\ ups_of w = [OUp 6 (ARS 1 [1]) (ALS [2]) [16; 99; 1]].
Proof. vm_compute. split; reflexivity. Qed.

Example C06_tree_remote_broadcast_example :
  let w := run 100 (submit tree4 2 (ARB 4) [16; 99; 2]) in
  queue w = [] /\ ups_of w = [OUp 5 (ARS 1 [1]) ALB [16; 99; 2]; OUp 6 (ARS 1 [1]) ALB [16; 99; 2]].
Proof. vm_compute. split; reflexivity. Qed.

Example C06_tree_global_broadcast_example :
  let w := run 100 (submit tree4 2 AGB [16; 99; 3]) in
  queue w = [] /\ ups_of w = [OUp 3 (ARS 1 [1]) AGB [16; 99; 3]; OUp 4 (ARS 1 [1]) AGB [16; 99; 3];
                           OUp 5 (ARS 1 [1]) AGB [16; 99; 3]; OUp 6 (ARS 1 [1]) AGB [16; 99; 3]].
Proof. vm_compute. split; reflexivity. Qed.

(* ===== network-number learning (What-Is-Network-Number / Network-Number-Is; model NetNum.v) =====
   Seeded C06-w6-3 left a stale key in NetworkServiceAccessPoint.adapters when a station learned its number, so the
   station had "two adapters" and every global broadcast it originated went out (and was delivered) twice. *)

(* whatever a node sees - frames of any kind, announcements and renumberings included, application sends, cache
   learning, its own questions / announcements, the answer timer - it keeps exactly the ports it was bound with:
   same number of adapters, same link addresses, same application *)
Theorem C06_number_learning_keeps_ports : forall es x x' l,
  run_xscript x es = (x', l) -> same_ports (x_node x) (x_node x').
Proof. exact run_xscript_ports. Qed.
Print Assumptions C06_number_learning_keeps_ports.

(* a global broadcast handed down by the application leaves every port exactly once (any modelled node) *)
Theorem C06_global_broadcast_once_per_port : forall n data,
  modelled_config n = true ->
  indication n AGB data =
    (n, map (fun j => Tx j LBcast (mkNpdu (Some DGlobal) None 255 None data)) (seq 0 (length (adapters n)))).
Proof. exact global_broadcast_once_per_port. Qed.
Print Assumptions C06_global_broadcast_once_per_port.

(* a station (one adapter: told nothing, its address, or a number it only learned) that hears Network-Number-Is `net`
   transmits nothing and becomes exactly the station bound with `net` and the same address - same application, same
   parked packets, cache re-filed under `net` - so every theorem about stations told network+address applies from then
   on; its next global broadcast leaves its port exactly once; and when its cache was filed under the adapter's old
   number (C06_number_learned_cache_filed: re-filing keeps that invariant) every path it knew is still known *)
Theorem C06_number_learned_station : forall o m app c pd conf task src net flag x' acts,
  xprocess (mkX (mkNode [mkAd o m] app c pd) conf task) 0 src LBcast (num_is net flag) = (x', acts) ->
  net < 65536 -> learnable o conf net ->
  acts = [] /\
  x_node x' = mkNode [mkAd (Some net) m] app (cache_rekey c o (Some net)) pd /\
  x_conf x' = (match o with None => 0 | Some _ => flag end) /\ x_task x' = 0 /\
  (forall data, indication (x_node x') AGB data
                = (x_node x', [Tx 0 LBcast (mkNpdu (Some DGlobal) None 255 None data)])) /\
  (keys_on o c -> forall d, find_path (x_node x') d = find_path (mkNode [mkAd o m] app c pd) d).
Proof. exact thm_number_learned. Qed.
Print Assumptions C06_number_learned_station.

Theorem C06_number_learned_cache_filed : forall o net c,
  keys_on o c -> keys_on (Some net) (cache_rekey c o (Some net)).
Proof. exact thm_number_learned_keys. Qed.
Print Assumptions C06_number_learned_cache_filed.

(* non-vacuity: a station told only its address, with a router recorded for network 7 and a packet parked for
   network 9, hears "this is network 12": one adapter filed under 12, the path to 7 kept, the packet still parked,
   and the global broadcast that follows goes out once *)
Example C06_number_learned_example :
  let x := mkX (mkNode [mkAd None (Some [5])] true [((None, 7), [9])]
                        [(9, [mkNpdu (Some (DBcast 9)) None 255 None [16; 99]])]) 1 0 in
  let r := run_xscript x [XE (EArrive 0 [9] LBcast (num_is 12 1)); XE (ESend AGB [16; 99; 1])] in
  learnable None 1 12 /\ keys_on None [((None, 7), [9])] /\
  adapters (x_node (fst r)) = [mkAd (Some 12) (Some [5])] /\
  find_path (x_node (fst r)) 7 = Some (0%nat, [9]) /\
  pending (x_node (fst r)) = [(9, [mkNpdu (Some (DBcast 9)) None 255 None [16; 99]])] /\
  snd r = [[]; [Tx 0 LBcast (mkNpdu (Some DGlobal) None 255 None [16; 99; 1])]].
Proof.
  cbn zeta. split; [exact I|]. split.
  - intros k mm [H|[]]. inversion H; reflexivity.
  - vm_compute. repeat split.
Qed.

(* a station that has only LEARNED its number (flag 0) is renumbered by a later announcement, a configured one is not *)
Example C06_renumbering_example :
  adapters (x_node (fst (run_xscript (xinit (mkNode [mkAd None (Some [5])] true [] []))
     [XE (EArrive 0 [9] LBcast (num_is 12 1)); XE (EArrive 0 [9] LBcast (num_is 13 1)); XE (EArrive 0 [9] LBcast (num_is 14 0))])))
    = [mkAd (Some 13) (Some [5])] /\
  adapters (x_node (fst (run_xscript (xinit (mkNode [mkAd (Some 4) (Some [5])] true [] []))
     [XE (EArrive 0 [9] LBcast (num_is 12 1))]))) = [mkAd (Some 4) (Some [5])].
Proof. vm_compute. split; reflexivity. Qed.

(* the hypothesis `keys_on` of the last clause of C06_number_learned_station holds in EVERY reachable state: whatever
   history of events (frames of any kind, sends, cache learning, announcements, renumberings, timer) a freshly bound
   node has seen, its cache is filed under the numbers of its own ports (`filed`), so a station's cache is filed
   under its adapter's number - hence a station never loses a path by learning or changing its number *)
Theorem C06_cache_filed_under_own_ports : forall es x x' l,
  filed (x_node x) -> run_xscript x es = (x', l) -> filed (x_node x').
Proof. exact run_xscript_filed. Qed.
Print Assumptions C06_cache_filed_under_own_ports.

Theorem C06_station_cache_filed : forall n0 es x l a,
  rcache n0 = [] -> run_xscript (xinit n0) es = (x, l) -> adapters (x_node x) = [a] ->
  keys_on (a_net a) (rcache (x_node x)).
Proof. exact thm_station_cache_filed. Qed.
Print Assumptions C06_station_cache_filed.

(* non-vacuity: a station told nothing learns a router from an I-Am-Router-To-Network, then its number, is renumbered,
   learns from an SADR - the cache ends up filed under the last number and both paths are there *)
Example C06_station_cache_filed_example :
  let x := fst (run_xscript (xinit (mkNode [mkAd None None] true [] []))
     [XE (EArrive 0 [9] LBcast (i_am [7])); XE (EArrive 0 [9] LBcast (num_is 12 0));
      XE (EArrive 0 [9] LBcast (num_is 13 0));
      XE (EArrive 0 [8] LBcast (mkNpdu None (Some (5, [1])) 0 None [16; 99]))]) in
  adapters (x_node x) = [mkAd (Some 13) None] /\
  rcache (x_node x) = [((Some 13, 7), [9]); ((Some 13, 5), [8])].
Proof. vm_compute. split; reflexivity. Qed.
