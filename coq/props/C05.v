(* C05 — segmented transfers deliver the exact payload and survive any single fault.
   Property theorems only; model Bac.Ssm / Bac.SsmWorld, proofs in Bac.SsmFacts / Bac.SsmC05. *)
From Bac Require Import Base PyRt Ssm SsmFacts SsmC04a SsmC05 SsmWorld.
Open Scope Z_scope.

(* cutting a message into segments of any positive size and concatenating the pieces gives the message back;
   n is the segment count computed by ClientSSM.indication / ServerSSM.confirmation *)
Theorem C05_slices_concat : forall p sz n, 0 < sz -> seg_count (zlen p) sz = Ok n -> concat (slices p sz n) = p.
Proof. exact slices_concat. Qed.
Print Assumptions C05_slices_concat.

(* a segment produced by get_segment i is piece i, numbered i mod 256, with more-follows iff it is not the last *)
Theorem C05_segment_shape : forall s i a c, s_ctx s = Some c -> get_segment s i = Ok a ->
  i < s_segcount s /\
  a_data a = slice (a_data c) (i * s_segsize s) (s_segsize s) /\
  (s_segcount s <> 1 -> a_seg a = true /\ a_seq a = i mod 256 /\ a_mor a = (i <? s_segcount s - 1)) /\
  (s_segcount s = 1 -> a_seg a = false /\ a_mor a = false).
Proof. exact get_segment_shape. Qed.
Print Assumptions C05_segment_shape.

(* fill_window(seqNum) with window w: the frames are segments seqNum, seqNum+1, ... consecutively, at most w of them *)
Theorem C05_sender_frames : forall seqNum st st' e w,
  s_actwin (h_s st) = Some w -> fill_window seqNum st = (st', e) ->
  exists frames, h_outs st' = rev (map Tx frames) ++ h_outs st /\ Z.of_nat (length frames) <= Z.max w 0 /\
    forall j a, nth_error frames j = Some a -> get_segment (h_s st) (seqNum + Z.of_nat j) = Ok a.
Proof. exact fill_window_frames. Qed.
Print Assumptions C05_sender_frames.

(* ... but seqNum itself is kept modulo 256: with more than 256 segments the window that should start at segment 256
   starts at segment 0 again (sequence number right, payload wrong) *)
Theorem C05_sender_frames_refuted :
  match first_tx (h_outs (fst (c_confirmation wrap_ack (mkH wrap_sender [] 1 0 true)))) with
  | Some a => a_seq a = 0 /\ a_data a = slice long_payload 0 50 /\ a_data a <> slice long_payload (256 * 50) 50
  | None => False
  end.
Proof. exact wrap_witness. Qed.
Print Assumptions C05_sender_frames_refuted.

(* receiver: whatever arrives — duplicates, frames out of order — as long as each frame numbered s carries piece i with
   i = s mod 256 and |i - next expected| < 128, what has been reassembled is the message cut at a segment boundary *)
Theorem C05_receiver_exact : forall p sz fs k, 0 < sz -> 0 <= k -> frames_ok p sz k fs ->
  let st := fold_left rx_step fs (k, prefix_upto p sz k) in
  k <= fst st /\ snd st = prefix_upto p sz (fst st).
Proof. exact receiver_prefix. Qed.
Print Assumptions C05_receiver_exact.

(* ... and once the last piece is in, it is the whole message *)
Theorem C05_receiver_complete : forall p sz k, 0 < sz -> zlen p <= (k + 1) * sz -> prefix_upto p sz k = p.
Proof. exact prefix_all. Qed.
Print Assumptions C05_receiver_complete.

(* the two receivers of the code are rx_step: ServerSSM.segmented_request and ClientSSM.segmented_confirmation accept a
   segment iff its number is lastSequenceNumber+1 mod 256, append exactly its payload, and hand the application
   nothing but the reassembled octets, and only on an in-order segment without more-follows *)
Theorem C05_server_receiver_is_rx_step : forall a st c, s_ctx (h_s st) = Some c -> a_type a = 0 -> a_seg a = true ->
  let st' := fst (s_segmented_request a st) in
  (ctx_data (h_s st'), s_lastseq (h_s st')) =
    (if a_seq a =? (s_lastseq (h_s st) + 1) mod 256
     then (a_data c ++ a_data a, (s_lastseq (h_s st) + 1) mod 256) else (a_data c, s_lastseq (h_s st))) /\
  (forall x, In (ToApp x) (h_outs st') -> ~ In (ToApp x) (h_outs st) ->
     a_seq a = (s_lastseq (h_s st) + 1) mod 256 /\ a_mor a = false /\ a_data x = a_data c ++ a_data a).
Proof. exact server_rx_tie. Qed.
Print Assumptions C05_server_receiver_is_rx_step.

Theorem C05_abort_not_garbage : forall a st c, s_ctx (h_s st) = Some c -> a_type a = 3 -> a_seg a = true ->
  let st' := fst (c_segmented_confirmation a st) in
  (ctx_data (h_s st'), s_lastseq (h_s st')) =
    (if a_seq a =? (s_lastseq (h_s st) + 1) mod 256
     then (a_data c ++ a_data a, (s_lastseq (h_s st) + 1) mod 256) else (a_data c, s_lastseq (h_s st))) /\
  (forall x, In (ToApp x) (h_outs st') -> ~ In (ToApp x) (h_outs st) ->
     a_seq a = (s_lastseq (h_s st) + 1) mod 256 /\ a_mor a = false /\ a_data x = a_data c ++ a_data a).
Proof. exact client_rx_tie. Qed.
Print Assumptions C05_abort_not_garbage.

(* fixed defect: a new server transaction never hands the application anything when the first frame it sees is not segment 0 *)
Theorem C05_first_frame_must_be_segment_zero : forall a st, a_type a = 0 -> a_seg a = true -> a_seq a <> 0 -> h_outs st = [] ->
  s_state (h_s st) = IDLE -> forall x, ~ In (ToApp x) (h_outs (fst (s_idle a st))).
Proof. exact s_idle_first_segment. Qed.
Print Assumptions C05_first_frame_must_be_segment_zero.

(* single-fault recovery does not hold: 180 octets each way at max-APDU 50, window 2, 3 retries; segment 1 of the request lost *)
Theorem C05_single_fault_recovers_refuted :
  let clean := run_chunks base_nodes [base_req] [] (-1) [] in
  let faulty := run_chunks base_nodes [base_req] [(2, [])] (-1) [] in
  existsb (is_conf 3) clean = true /\ n_conf clean = 1 /\
  existsb (is_conf 3) faulty = false /\ existsb (is_conf 7) faulty = true /\ n_conf faulty = 1.
Proof. exact single_drop_witness. Qed.
Print Assumptions C05_single_fault_recovers_refuted.

(* it does hold for unsegmented transactions on the finite family swept completely here: retries 1..3, request lengths
   {0,1,20,46}, simple / 30-octet complex / error answers, each of {drop, duplicate, 500 ms, 2 s delay, 4 s late duplicate}
   at each of the frame indices 0..3 (720 scenarios): exactly one outcome and it is the server's answer *)
Theorem C05_single_fault_recovers_partial : forall x, In x sweep_domain -> sweep_ok x = true.
Proof. apply forallb_forall. exact unsegmented_single_fault_sweep. Qed.
Print Assumptions C05_single_fault_recovers_partial.

Example C05_seg_count_example : seg_count 180 50 = Ok 4 /\ seg_count 0 50 = Ok 1 /\ seg_count 200 50 = Ok 4.
Proof. vm_compute. repeat split. Qed.
Example C05_frames_ok_example :
  frames_ok [1; 2; 3; 4; 5] 2 0 [(1, [3; 4]); (1, [3; 4]); (2, [5])].
Proof.
  cbn [frames_ok]. repeat split.
  - exists 1. vm_compute. repeat split; discriminate.
  - exists 1. vm_compute. repeat split; discriminate.
  - exists 2. vm_compute. repeat split; discriminate.
Qed.
