(* C01 — placeholder while the model is being tied *)
From Bac Require Import Base Tag Prim PrimTables PrimFacts.
