(* C01 — Primitive values survive encoding unchanged and are never silently altered.
   Property theorems only; proofs live in Bac.PrimInt / PrimBits / PrimFacts / PrimFloat.
   The model (Bac.Prim) is the repaired code: Integer.encode refuses values outside 32 bits
   ("fix: Integer.encode refuses ...") and SecurityLevel is a bijection ("fix: SecurityLevel ..."). *)
From Bac Require Import Base Tag TagFacts Prim PrimTables PrimInt PrimBits PrimFacts PrimFloat PrimObj PrimObjFacts PrimDispatch PrimDispatchFacts.
Open Scope N_scope.

(* ---- round trip, application tagging: whatever encode(tag) produces, decode(tag) of the same class
   gives the value back.  Unconditional for Null, Boolean, Unsigned, Integer, OctetString, BitString,
   Date, Time (prim_ok is True there): every Python int, every bit list, every 4-tuple. *)
Theorem C01_roundtrip_app : forall tb v t,
  enum_bijective tb = true -> prim_ok tb v ->
  enc_app tb v = Ok t -> dec_app tb (kind v) t = Ok v.
Proof. exact roundtrip_app. Qed.
Print Assumptions C01_roundtrip_app.

(* ---- context tagging, any context number: app_to_context then context_to_app then decode *)
Theorem C01_roundtrip_ctx : forall tb v c t,
  enum_bijective tb = true -> prim_ok tb v -> enc_app tb v = Ok t ->
  exists x, app_to_ctx c t = Ok x /\
            (do a <- ctx_to_app (kind v) x; dec_app tb (kind v) a) = Ok v.
Proof. exact roundtrip_ctx. Qed.
Print Assumptions C01_roundtrip_ctx.

(* ---- down to the octets (composition with C02's tag round trip): the octets Tag.encode emits,
   followed by anything, decode to exactly the value and leave the rest untouched.
   Side conditions: the content consists of octets and is shorter than 2^32. *)
Theorem C01_octets_app : forall tb v t bs rest,
  enum_bijective tb = true -> prim_ok tb v ->
  enc_app tb v = Ok t -> bytes_ok (data t) = true -> lvt t < 4294967296 ->
  enc_tag t = Ok bs ->
  dec_octets_app tb (kind v) (bs ++ rest) = Ok (v, rest).
Proof. exact wire_roundtrip_app. Qed.
Print Assumptions C01_octets_app.

Theorem C01_octets_ctx : forall tb v c t rest,
  enum_bijective tb = true -> prim_ok tb v -> c <= 254 ->
  enc_app tb v = Ok t -> bytes_ok (data t) = true -> lvt t < 4294967296 ->
  exists bs, enc_octets_ctx tb c v = Ok bs /\
             dec_octets_ctx tb (kind v) (bs ++ rest) = Ok (v, rest).
Proof. exact wire_roundtrip_ctx. Qed.
Print Assumptions C01_octets_ctx.

(* ---- never silently altered: the encoder refuses, or what it emits decodes to the same value *)
Theorem C01_refuse_or_faithful : forall tb v,
  enum_bijective tb = true -> prim_ok tb v ->
  (exists e, enc_app tb v = Err e) \/
  (exists t, enc_app tb v = Ok t /\ dec_app tb (kind v) t = Ok v).
Proof. exact refuse_or_faithful. Qed.
Print Assumptions C01_refuse_or_faithful.

(* ---- exactly which values are refused *)
Theorem C01_unsigned_refuse_iff : forall tb z,
  (exists e, enc_app tb (PUnsigned z) = Err e) <-> ~ (0 <= z < 4294967296)%Z.
Proof. exact unsigned_refuse_iff. Qed.
Print Assumptions C01_unsigned_refuse_iff.

(* the repaired Integer.encode: everything outside 32 bits is refused (was: wrapped) *)
Theorem C01_integer_refuse_iff : forall tb z,
  (exists e, enc_app tb (PInteger z) = Err e) <-> ~ (-2147483648 <= z <= 2147483647)%Z.
Proof. exact integer_refuse_iff. Qed.
Print Assumptions C01_integer_refuse_iff.

Theorem C01_date_refuse_iff : forall tb y m d w,
  (exists e, enc_app tb (PDate y m d w) = Err e) <->
  ~ ((0 <= y < 256) /\ (0 <= m < 256) /\ (0 <= d < 256) /\ (0 <= w < 256))%Z.
Proof. exact date_refuse_iff. Qed.
Print Assumptions C01_date_refuse_iff.

Theorem C01_time_refuse_iff : forall tb h m s c,
  (exists e, enc_app tb (PTime h m s c) = Err e) <->
  ~ ((0 <= h < 256) /\ (0 <= m < 256) /\ (0 <= s < 256) /\ (0 <= c < 256))%Z.
Proof. exact time_refuse_iff. Qed.
Print Assumptions C01_time_refuse_iff.

Theorem C01_objid_refuse_iff : forall tb z i, (0 <= i <= 4194303)%Z ->
  (exists e, enc_app tb (PObjId (ENum z) i) = Err e) <-> ~ (0 <= z < 1024)%Z.
Proof. exact objid_refuse_iff. Qed.
Print Assumptions C01_objid_refuse_iff.

(* ---- canonical forms: equalities with independently written statements of clause 20.2 *)
Theorem C01_unsigned_shortest : forall tb z t, enc_app tb (PUnsigned z) = Ok t ->
  (0 <= z < 4294967296)%Z /\ data t = spec_min_unsigned (Z.to_N z) /\ unbe (data t) = Z.to_N z.
Proof. exact unsigned_shortest. Qed.
Print Assumptions C01_unsigned_shortest.

Theorem C01_integer_shortest : forall tb z t, enc_app tb (PInteger z) = Ok t ->
  (-2147483648 <= z <= 2147483647)%Z /\ data t = spec_min_signed z.
Proof. exact integer_shortest. Qed.
Print Assumptions C01_integer_shortest.

Theorem C01_enum_shortest : forall tb v t, enum_bijective tb = true -> valid_eval tb v ->
  enc_app tb (PEnum v) = Ok t ->
  exists n, n < 4294967296 /\ eval_num tb v = Ok (Z.of_N n) /\ data t = spec_min_unsigned n.
Proof. exact enum_shortest. Qed.
Print Assumptions C01_enum_shortest.

(* first octet = unused-bit count, ceil(n/8) octets follow; read MSB first they are the bits then zeros *)
Theorem C01_bitstring_layout : forall tb l t, enc_app tb (PBits l) = Ok t ->
  data t = ((8 - lenN l mod 8) mod 8) :: pack_bits l /\
  lenN (pack_bits l) = (lenN l + 7) / 8 /\
  flat_map byte_bits (pack_bits l) = (l ++ repeat false (N.to_nat ((8 - lenN l mod 8) mod 8)))%list.
Proof. exact bitstring_layout. Qed.
Print Assumptions C01_bitstring_layout.

Theorem C01_real_ieee : forall tb d t, enc_app tb (PReal d) = Ok t ->
  exists p, round32 d = Ok p /\ data t = be4 p /\ lvt t = 4.
Proof. exact real_ieee. Qed.
Print Assumptions C01_real_ieee.

Theorem C01_double_ieee : forall tb d t, enc_app tb (PDouble d) = Ok t -> data t = be8 d /\ lvt t = 8.
Proof. exact double_ieee. Qed.
Print Assumptions C01_double_ieee.

(* 10 + 22 bits *)
Theorem C01_objid_layout : forall tb t0 i t,
  enum_bijective tb = true -> valid_eval tb t0 -> (0 <= i <= 4194303)%Z ->
  enc_app tb (PObjId t0 i) = Ok t ->
  exists tn, (0 <= tn < 1024)%Z /\ objid_word tb t0 i = Ok (tn * 4194304 + i)%Z /\
             data t = be4 (Z.to_N (tn * 4194304 + i)) /\ lvt t = 4.
Proof. exact objid_layout. Qed.
Print Assumptions C01_objid_layout.

Theorem C01_date_time_layout : forall tb a b c d t,
  enc_app tb (PDate a b c d) = Ok t \/ enc_app tb (PTime a b c d) = Ok t ->
  data t = [Z.to_N a; Z.to_N b; Z.to_N c; Z.to_N d] /\ lvt t = 4.
Proof. exact date_time_layout. Qed.
Print Assumptions C01_date_time_layout.

(* ---- Real: which doubles survive.  real_exact d says "narrowing then widening gives d back";
   every widened binary32 pattern that is not a NaN has this property (normal, zero, infinite and
   subnormal ones), so the class is exactly the binary32 values. *)
Theorem C01_real_rounding : forall p, p < 4294967296 -> b32_not_nan p = true ->
  round32 (widen32 p) = Ok p.
Proof. exact round32_widen32. Qed.
Print Assumptions C01_real_rounding.

(* ---- table obligation and its consequence for every enumeration class of the library *)
Theorem C01_enums_bijective : forallb (fun p => enum_bijective (snd p)) all_enums = true.
Proof. exact enums_bijective. Qed.
Print Assumptions C01_enums_bijective.

Theorem C01_enum_roundtrip_all : forall name tb v t,
  In (name, tb) all_enums -> valid_eval tb v ->
  enc_app tb (PEnum v) = Ok t -> dec_app tb 9 t = Ok (PEnum v).
Proof. exact enum_roundtrip_all. Qed.
Print Assumptions C01_enum_roundtrip_all.

(* ---- object life cycles (model PrimObj: one object that is encoded, decoded into, re-set through the
   public setters, copied, and encoded again).  The state of an object is its value; the
   correspondence check verifies after arbitrary histories that the implementation keeps nothing else. *)

(* whatever two histories did before: if the objects hold the same value now, an encode call shows the
   same octets (or the same refusal) — and leaves the value as it is *)
Theorem C01_encode_depends_on_value_only : forall tb otb maxi k s1 s2 h1 h2 o,
  is_encode o ->
  final tb otb maxi k s1 h1 = final tb otb maxi k s2 h2 ->
  fst (step tb otb maxi k (final tb otb maxi k s1 h1) o) = fst (step tb otb maxi k (final tb otb maxi k s2 h2) o) /\
  snd (step tb otb maxi k (final tb otb maxi k s1 h1) o) = final tb otb maxi k s1 h1.
Proof. exact encode_depends_on_value_only. Qed.
Print Assumptions C01_encode_depends_on_value_only.

Theorem C01_encode_keeps_value : forall tb otb maxi k s o,
  is_encode o \/ o = OGetLong -> snd (step tb otb maxi k s o) = s.
Proof. exact encode_keeps_state. Qed.
Print Assumptions C01_encode_keeps_value.

(* the round trip holds at the end of every history, and decoding into a live object gives what a fresh
   one would hold, whatever it held before *)
Theorem C01_history_roundtrip : forall tb otb maxi k s0 h v t s',
  final tb otb maxi k s0 h = v ->
  enum_bijective tb = true -> prim_ok tb v -> enc_app tb v = Ok t ->
  fst (step tb otb maxi k v OEncApp) = ores zs (enc_octets_app tb v) /\
  step tb otb maxi (kind v) s' (ODecode t) = ([0%Z], v).
Proof. exact history_roundtrip. Qed.
Print Assumptions C01_history_roundtrip.

(* ObjectIdentifier.set_long(w) on any object: the next encode emits the four octets of w *)
Theorem C01_objid_set_long_encode : forall tb otb maxi t0 i0 w,
  enum_bijective otb = true -> (0 <= w < 4294967296)%Z ->
  let s := snd (step tb otb maxi 12 (PObjId t0 i0) (OSetLong w)) in
  enc_app otb s = Ok (app_tag 12 (be4 (Z.to_N w))) /\
  fst (step tb otb maxi 12 s OGetLong) = [0%Z; w].
Proof. exact objid_set_long_encode. Qed.
Print Assumptions C01_objid_set_long_encode.

(* ---- a bit string comes back with exactly the bits that went in, for every length 0, 1, 2, ...: the decoder knows no
   class width (a named-bit subclass's bitLen) to pad or cut to *)
Theorem C01_bitstring_exact_length : forall tb l t, enc_app tb (PBits l) = Ok t ->
  dec_app tb 8 t = Ok (PBits l) /\
  (forall l', dec_app tb 8 t = Ok (PBits l') -> length l' = length l).
Proof. exact bitstring_exact. Qed.
Print Assumptions C01_bitstring_exact_length.

(* ---- Tag.app_to_object: the generic receiver, which picks the class from the tag NUMBER (model PrimDispatch).
   What an object of one of the thirteen base classes encodes comes back as the same value; base_table = the empty
   translate table for Enumerated, the stock object-type table for ObjectIdentifier. *)
Theorem C01_app_to_object_roundtrip : forall otb v t,
  enum_bijective otb = true -> prim_ok (base_table otb (kind v)) v ->
  enc_app (base_table otb (kind v)) v = Ok t -> app_to_object otb t = Ok (Some v).
Proof. exact app_to_object_roundtrip. Qed.
Print Assumptions C01_app_to_object_roundtrip.

(* every tag, not only produced ones: an object is built only for an application tag numbered 0..12 and is then of
   exactly the class that number names, decoded by that class's own decoder; 13..15 give no object; any other
   class / number is refused — no tag is ever answered with an object of another class *)
Theorem C01_app_to_object_class : forall otb t,
  match app_to_object otb t with
  | Ok (Some v) => cls t = 0 /\ num t < 13 /\ kind v = num t /\ dec_app (base_table otb (num t)) (num t) t = Ok v
  | Ok None => cls t = 0 /\ 13 <= num t < 16
  | Err e => cls t <> 0 \/ 16 <= num t \/ (num t < 13 /\ dec_app (base_table otb (num t)) (num t) t = Err e)
  end.
Proof. exact app_to_object_class. Qed.
Print Assumptions C01_app_to_object_class.

(* subclass values through the generic receiver: the number on the wire is the number the name stands for *)
Theorem C01_app_to_object_enum_number : forall tb otb e t,
  enum_bijective tb = true -> valid_eval tb e -> enc_app tb (PEnum e) = Ok t ->
  exists n, n < 4294967296 /\ eval_num tb e = Ok (Z.of_N n) /\
            app_to_object otb t = Ok (Some (PEnum (ENum (Z.of_N n)))).
Proof. exact app_to_object_enum_number. Qed.
Print Assumptions C01_app_to_object_enum_number.

Theorem C01_app_to_object_objid_number : forall tb otb ty i t,
  enum_bijective tb = true -> valid_eval tb ty -> (0 <= i <= 4194303)%Z ->
  enc_app tb (PObjId ty i) = Ok t ->
  exists tn, tn < 1024 /\ objid_word tb ty i = Ok (Z.of_N tn * 4194304 + i)%Z /\
             app_to_object otb t = Ok (Some (PObjId (eval_of_num otb tn) i)).
Proof. exact app_to_object_objid_number. Qed.
Print Assumptions C01_app_to_object_objid_number.

(* down to the octets (with C02's tag round trip) *)
Theorem C01_wire_to_object_roundtrip : forall otb v t bs rest,
  enum_bijective otb = true -> prim_ok (base_table otb (kind v)) v ->
  enc_app (base_table otb (kind v)) v = Ok t -> bytes_ok (data t) = true -> lvt t < 4294967296 ->
  enc_tag t = Ok bs ->
  wire_to_object otb (bs ++ rest) = Ok (Some v, rest).
Proof. exact wire_to_object_roundtrip. Qed.
Print Assumptions C01_wire_to_object_roundtrip.

(* ---- non-vacuity: the hypotheses are satisfiable and the conclusions are about real encodings *)
Example C01_ex_values :
  map (enc_octets_app E_basetypes_SecurityLevel)
      [PUnsigned 256; PInteger (-129); PBool true; PBits [true; false; true];
       PEnum (EName "encryptedEndToEnd"); PReal 4607182418800017408; PDate 124 2 29 4]
  = [Ok [34; 1; 0]; Ok [50; 255; 127]; Ok [17]; Ok [130; 5; 160]; Ok [145; 5];
     Ok [68; 63; 128; 0; 0]; Ok [164; 124; 2; 29; 4]].
Proof. vm_compute. reflexivity. Qed.
Example C01_ex_refusals :
  map (enc_app []) [PUnsigned 4294967296; PInteger 2147483648; PInteger 4294967301;
                    PInteger (-2147483649); PObjId (ENum 1024) 3; PDate 256 1 1 1;
                    PReal 5183643171103440896 (* 1e39 *)]
  = [Err StructErr; Err ValueErr; Err ValueErr; Err ValueErr; Err StructErr; Err ValueErr; Err OverflowErr].
Proof. vm_compute. reflexivity. Qed.
Example C01_ex_prim_ok :
  prim_ok objid_type_table (PObjId (EName "device") 4194303) /\
  prim_ok E_basetypes_SecurityLevel (PEnum (ENum 77)) /\
  prim_ok [] (PChars 4 [216; 61; 222; 0]) /\
  prim_ok [] (PReal 4591870180174331904) (* the binary32 nearest to 0.1, widened *).
Proof.
  split; [split; [vm_compute; congruence | cbn; lia]|].
  split; [split; [lia | vm_compute; reflexivity]|].
  split; [vm_compute; reflexivity|].
  split; [reflexivity|]. exists 1036831949. split; vm_compute; reflexivity.
Qed.
Example C01_ex_wire_ctx :
  dec_octets_ctx objid_type_table 12 [44; 2; 0; 0; 5; 99] (* context 2, device:5, one octet follows *)
  = Ok (PObjId (EName "device") 5, [99]).
Proof. vm_compute. reflexivity. Qed.
(* a life cycle: encode, set_tuple to another identifier, encode again — the second encode shows the new word;
   then a UCS-2 string decoded into an object that held ASCII text is re-emitted with its own octets *)
Example C01_ex_history_objid :
  run objid_type_table objid_type_table objid_max_instance 12 (PObjId (EName "loadControl") 1961578)
      [OEncApp; OSetTuple (ENum 8) 5; OEncApp]
  = ([1; 0; 196; 7; 29; 238; 106]%Z ++ canon_prim (PObjId (EName "loadControl") 1961578) ++
     [6; 0]%Z ++ canon_prim (PObjId (EName "device") 5) ++
     [1; 0; 196; 2; 0; 0; 5]%Z ++ canon_prim (PObjId (EName "device") 5))%list.
Proof. vm_compute. reflexivity. Qed.
Example C01_ex_history_chars :
  run [] objid_type_table objid_max_instance 7 (PChars 0 [65; 66])
      [OEncApp; ODecode (mkTag 0 7 3 [4; 0; 233]); OEncCtx 1]
  = ([1; 0; 115; 0; 65; 66]%Z ++ canon_prim (PChars 0 [65; 66]) ++
     [3; 0]%Z ++ canon_prim (PChars 4 [0; 233]) ++
     [2; 0; 27; 4; 0; 233]%Z ++ canon_prim (PChars 4 [0; 233]))%list.
Proof. vm_compute. reflexivity. Qed.
(* the same four octets under two object-type tables (stock, and a vendor extension naming type 128): each class
   answers from its own table only *)
Example C01_ex_vendor_table :
  dec_app objid_type_table 12 (mkTag 0 12 4 [32; 0; 0; 2]) = Ok (PObjId (ENum 128) 2) /\
  dec_app (("vendorMeter", 128) :: objid_type_table) 12 (mkTag 0 12 4 [32; 0; 0; 2]) = Ok (PObjId (EName "vendorMeter") 2) /\
  enc_app (("vendorMeter", 128) :: objid_type_table) (PObjId (EName "vendorMeter") 2) = Ok (mkTag 0 12 4 [32; 0; 0; 2]).
Proof. vm_compute. repeat split. Qed.
Example C01_ex_short_bits :
  dec_octets_app [] 8 [129; 0] = Ok (PBits [], []) /\ dec_octets_app [] 8 [130; 6; 64] = Ok (PBits [false; true], []).
Proof. vm_compute. split; reflexivity. Qed.
(* the generic receiver: device:5 from its octets with one octet left over; a SecurityLevel name arrives as its number;
   a vendor object type arrives as the bare number; slots 13..15 give no object; 16 and a context tag are refused *)
Example C01_ex_app_to_object :
  wire_to_object objid_type_table [196; 2; 0; 0; 5; 99] = Ok (Some (PObjId (EName "device") 5), [99]) /\
  (do t <- enc_app E_basetypes_SecurityLevel (PEnum (EName "encryptedEndToEnd")); app_to_object objid_type_table t)
    = Ok (Some (PEnum (ENum 5))) /\
  (do t <- enc_app (("vendorMeter", 128) :: objid_type_table) (PObjId (EName "vendorMeter") 2); app_to_object objid_type_table t)
    = Ok (Some (PObjId (ENum 128) 2)) /\
  app_to_object [] (mkTag 0 13 0 []) = Ok None /\ app_to_object [] (mkTag 0 16 0 []) = Err IndexErr /\
  app_to_object [] (mkTag 1 2 1 [3]) = Err ValueErr /\ app_to_object [] (mkTag 0 2 0 []) = Err InvalidTag.
Proof. vm_compute. repeat split. Qed.
