From Bac Require Import Base Addr AddrFacts.
