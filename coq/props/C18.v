(* C18 — addresses parse, print, compare and hash coherently in every notation.
   Property theorems only; proofs live in Bac.AddrFacts / AddrParse / AddrOld / AddrEntry / AddrIp / AddrWild.
   Texts are lists of character codes: 42 '*', 46 '.', 47 '/', 58 ':', 64 '@', "0x" = 48 120,
   "X'" = 88 39.  `digits s` = s matches \d+; `dec_val s` = int(s); `hex_pairs h` = h matches
   (HH)+; `unhex h` = the octets those pairs spell; `decode_str` = Address(<str>). *)
From Bac Require Import Base Addr AddrFacts AddrParse AddrOld AddrEntry AddrIp AddrWild.
Open Scope N_scope.

(* ---------------------------------------------------------------- what each notation denotes *)
(* "<station>" (any run of digits, leading zeros included): local station, or refused above 255 *)
Theorem C18_denotation_station : forall s, digits s = true ->
  decode_str s = if 256 <=? dec_val s then Err ValueErr else Ok (station [dec_val s]).
Proof. exact decode_station. Qed.
Print Assumptions C18_denotation_station.

(* "<net>:<station>" *)
Theorem C18_denotation_net_station : forall n s, digits n = true -> digits s = true ->
  decode_str (n ++ 58 :: s) =
    if (65535 <=? Z.of_N (dec_val n))%Z then Err ValueErr
    else if 256 <=? dec_val s then Err ValueErr
    else Ok (mkAddr ARemoteStation (Some (Z.of_N (dec_val n))) (Some [dec_val s]) None None).
Proof. exact decode_net_station. Qed.
Print Assumptions C18_denotation_net_station.

(* "<net>:*" *)
Theorem C18_denotation_net_broadcast : forall n, digits n = true ->
  decode_str (n ++ [58; 42]) =
    if (65535 <=? Z.of_N (dec_val n))%Z then Err ValueErr
    else Ok (mkAddr ARemoteBroadcast (Some (Z.of_N (dec_val n))) None None None).
Proof. exact decode_net_bcast. Qed.
Print Assumptions C18_denotation_net_broadcast.

(* "*" and "*:*" *)
Theorem C18_denotation_broadcasts :
  decode_str [42] = Ok local_broadcast /\ decode_str [42; 58; 42] = Ok global_broadcast.
Proof. split; reflexivity. Qed.
Print Assumptions C18_denotation_broadcasts.

(* "0x<hex pairs>" and "<net>:0x<hex pairs>", either letter case *)
Theorem C18_denotation_hex : forall h, hex_pairs h = true ->
  exists b, unhex h = Ok b /\ decode_str (48 :: 120 :: h) = Ok (station b).
Proof. exact decode_hex. Qed.
Print Assumptions C18_denotation_hex.

Theorem C18_denotation_net_hex : forall n h, digits n = true -> hex_pairs h = true ->
  exists b, unhex h = Ok b /\
  decode_str (n ++ 58 :: 48 :: 120 :: h) =
    if (65535 <=? Z.of_N (dec_val n))%Z then Err ValueErr
    else Ok (mkAddr ARemoteStation (Some (Z.of_N (dec_val n))) (Some b) None None).
Proof. exact decode_net_hex. Qed.
Print Assumptions C18_denotation_net_hex.

(* "X'<hex pairs>'" and "<net>:X'<hex pairs>'" (legacy patterns) *)
Theorem C18_denotation_oldhex : forall h, hex_pairs h = true ->
  exists b, unhex h = Ok b /\ decode_str (oldtext h) = Ok (station b).
Proof. exact decode_oldhex. Qed.
Print Assumptions C18_denotation_oldhex.

Theorem C18_denotation_net_oldhex : forall n h, digits n = true -> hex_pairs h = true ->
  exists b, unhex h = Ok b /\
  decode_str (n ++ 58 :: oldtext h) =
    if (65535 <=? Z.of_N (dec_val n))%Z then Err ValueErr
    else Ok (mkAddr ARemoteStation (Some (Z.of_N (dec_val n))) (Some b) None None).
Proof. exact decode_net_oldhex. Qed.
Print Assumptions C18_denotation_net_oldhex.

(* hex text written by btox spells exactly the octets it was written from *)
Theorem C18_hex_text_octets : forall l, bytes_ok l = true -> unhex (btox l) = Ok l.
Proof. exact unhex_btox. Qed.
Print Assumptions C18_hex_text_octets.

(* "a.b.c.d[/len][:port]" with optional "<net>:" — station octets and IP attributes come from
   ip_from_text ... *)
Theorem C18_denotation_ip : forall a b c d m p,
  digits a = true -> digits b = true -> digits c = true -> digits d = true ->
  opt_digits m = true -> opt_digits p = true ->
  decode_str (ip_text (quad a b c d) m p) =
    do x <- ip_from_text (quad a b c d) m p;
    Ok (mkAddr ALocalStation None (Some (fst x)) None (Some (snd x))).
Proof. exact decode_ip. Qed.
Print Assumptions C18_denotation_ip.

Theorem C18_denotation_net_ip : forall n a b c d m p, digits n = true ->
  digits a = true -> digits b = true -> digits c = true -> digits d = true ->
  opt_digits m = true -> opt_digits p = true ->
  decode_str (n ++ 58 :: ip_text (quad a b c d) m p) =
    if (65535 <=? Z.of_N (dec_val n))%Z then Err ValueErr
    else do x <- ip_from_text (quad a b c d) m p;
         Ok (mkAddr ARemoteStation (Some (Z.of_N (dec_val n))) (Some (fst x)) None (Some (snd x))).
Proof. exact decode_net_ip. Qed.
Print Assumptions C18_denotation_net_ip.

(* ... which, for parts that inet_aton reads as a' b' c' d', port <= 65535 (default 47808) and
   mask length <= 32 (default 32), are: octets a'.b'.c'.d' ++ port (big endian), and ip_denoted *)
Theorem C18_denotation_ip_values : forall a b c d m p a' b' c' d',
  digits a = true -> digits b = true -> digits c = true -> digits d = true ->
  aton_part a = Some a' -> aton_part b = Some b' -> aton_part c = Some c' -> aton_part d = Some d' ->
  dec_val (odefault s47808 p) <= 65535 -> dec_val (odefault s32 m) <= 32 ->
  ip_from_text (quad a b c d) m p =
    Ok ([a'; b'; c'; d'] ++ be2 (dec_val (odefault s47808 p)),
        ip_denoted (be_val [a'; b'; c'; d']) (dec_val (odefault s32 m)) (dec_val (odefault s47808 p)) (quad a b c d)).
Proof. exact ip_from_text_ok. Qed.
Print Assumptions C18_denotation_ip_values.

(* canonical decimal octets are read as themselves (domain 0..255 swept completely) *)
Theorem C18_octet_text : forall a, a < 256 -> aton_part (dec_str a) = Some a.
Proof. exact aton_dec. Qed.
Print Assumptions C18_octet_text.

(* mask, subnet, host and directed broadcast, arithmetically; k = 32 - mask length *)
Theorem C18_ip_fields : forall ipz len, (0 <= ipz < 2 ^ 32)%Z -> (0 <= len <= 32)%Z ->
  let k := (32 - len)%Z in
  let mask := Z.land (Z.shiftl M32 (32 - len)) M32 in
  (mask = 2 ^ 32 - 2 ^ k /\
   Z.land ipz mask = ipz - ipz mod 2 ^ k /\
   Z.land ipz (Z.lnot mask) = ipz mod 2 ^ k /\
   Z.land (Z.lor (Z.land ipz mask) (Z.lnot mask)) M32 = ipz - ipz mod 2 ^ k + (2 ^ k - 1))%Z.
Proof. exact ip_fields_arith. Qed.
Print Assumptions C18_ip_fields.

(* int, raw octets, (host, port) tuples *)
Theorem C18_denotation_int : forall z, (0 <= z < 256)%Z -> address1 (AInt z) = Ok (station [Z.to_N z]).
Proof. exact int_denotation. Qed.
Print Assumptions C18_denotation_int.

Theorem C18_denotation_octets : forall l,
  exists x, address1 (ABytes l) = Ok x /\ key x = (ALocalStation, None, Some l) /\ route x = None.
Proof. exact octets_denotation. Qed.
Print Assumptions C18_denotation_octets.

Theorem C18_denotation_tuple : forall a b c d a' b' c' d' port,
  digits a = true -> digits b = true -> digits c = true -> digits d = true ->
  aton_part a = Some a' -> aton_part b = Some b' -> aton_part c = Some c' -> aton_part d = Some d' ->
  (0 <= port <= 65535)%Z ->
  exists x, address1 (ATuple (HStr (quad a b c d)) port) = Ok x /\
    key x = (ALocalStation, None, Some ([a'; b'; c'; d'] ++ be2 (Z.to_N port))) /\ route x = None.
Proof. exact tuple_denotation. Qed.
Print Assumptions C18_denotation_tuple.

(* ---------------------------------------------------------------- the wildcard tests and the argument's type *)
(* `addr == "*"` / `addr == "*:*"` at the head of decode_address are reached by EVERY argument type.
   An argument denotes the route-free local (global) broadcast only if it is the text "*" ("*:*"),
   optionally followed by the one newline `$` tolerates, or an Address object that == that broadcast —
   no int, no octet string (not 0x2A, not 0x2A 0x3A 0x2A), no (host, port) tuple does *)
Theorem C18_broadcast_arguments : forall a x, decode_address a = Ok x -> route x = None ->
  (ty x = ALocalBroadcast -> is_wild_text [42] a \/ exists y, a = AAddr y /\ key y = key bcast_local) /\
  (ty x = AGlobalBroadcast -> is_wild_text [42; 58; 42] a \/ exists y, a = AAddr y /\ key y = key bcast_global).
Proof. exact broadcast_arguments. Qed.
Print Assumptions C18_broadcast_arguments.

(* ... and those arguments are accepted as such *)
Theorem C18_wildcard_texts_accepted :
  decode_address (AStr [42]) = Ok bcast_local /\ decode_address (AStr [42; 10]) = Ok bcast_local /\
  decode_address (AStr [42; 58; 42]) = Ok bcast_global /\ decode_address (AStr [42; 58; 42; 10]) = Ok bcast_global.
Proof. exact wild_texts_accepted. Qed.
Print Assumptions C18_wildcard_texts_accepted.

(* an int, an octet string or a tuple that is accepted is a route-free local station *)
Theorem C18_non_text_is_station : forall a x, non_text a = true -> decode_address a = Ok x ->
  ty x = ALocalStation /\ net x = None /\ route x = None /\ exists m, mac x = Some m.
Proof. exact non_text_station. Qed.
Print Assumptions C18_non_text_is_station.

(* raw octets, whatever they spell in ASCII, are the station with exactly those octets: Address(octets) ... *)
Theorem C18_octets_are_octets : forall l x, decode_address (ABytes l) = Ok x ->
  key x = (ALocalStation, None, Some l) /\ route x = None.
Proof. exact octets_key. Qed.
Print Assumptions C18_octets_are_octets.
(* ... and Address(net, octets) *)
Theorem C18_net_octets_are_octets : forall n l, (0 <= n < 65535)%Z ->
  exists x, address2 n (ABytes l) = Ok x /\ key x = (ARemoteStation, Some n, Some l) /\ route x = None.
Proof. exact octets_key2. Qed.
Print Assumptions C18_net_octets_are_octets.

(* an Address object as constructor argument (not a notation of the statement; behaviour recorded): accepted
   only when it == a broadcast, the result is that broadcast without route and == the argument; every
   other Address object is a TypeError *)
Theorem C18_address_object_argument : forall y x, decode_address (AAddr y) = Ok x ->
  (x = bcast_local \/ x = bcast_global) /\ key y = key x /\ eqb y x = true.
Proof. exact addr_object. Qed.
Print Assumptions C18_address_object_argument.
Theorem C18_address_object_refused : forall y, ty y <> ALocalBroadcast -> ty y <> AGlobalBroadcast ->
  decode_address (AAddr y) = Err TypeErr.
Proof. exact addr_object_refused. Qed.
Print Assumptions C18_address_object_refused.
Theorem C18_address_object_accepted : forall y,
  (key y = key bcast_local -> decode_address (AAddr y) = Ok bcast_local) /\
  (key y = key bcast_global -> decode_address (AAddr y) = Ok bcast_global).
Proof. exact wild_objects_accepted. Qed.
Print Assumptions C18_address_object_accepted.

(* constructing an address after other addresses were built (and modified) in the same process gives
   what the constructor gives on its own: the model has no module-level state; the correspondence
   (process-history cases on never-seen texts) ties this to the code *)
Theorem C18_construction_history_independent : forall e e' r,
  built_after e r = built_after e' r /\ built_after e r = r.
Proof. exact built_after_independent. Qed.
Print Assumptions C18_construction_history_independent.

(* ---------------------------------------------------------------- refusals *)
(* network numbers above 65534: any "<net>:<...>" text the combined pattern accepts ... *)
Theorem C18_refuses_net : forall n cs c, digits n = true -> 65535 <= dec_val n ->
  nonl cs = true -> ~ In 64 cs -> match_core cs = Some c ->
  decode_str (n ++ 58 :: cs) = Err ValueErr.
Proof. exact net_refused_text. Qed.
Print Assumptions C18_refuses_net.

(* ... and Address(net, x) (after the fix), RemoteStation(net, x), RemoteBroadcast(net) *)
Theorem C18_refuses_net_constructors : forall n, (n < 0 \/ 65535 <= n)%Z ->
  (forall a, address2 n a = Err ValueErr) /\ (forall a, remote_station n a = Err ValueErr) /\
  remote_broadcast n = Err ValueErr.
Proof.
  intros n H. repeat split; intros.
  - now apply address2_net_refused.
  - now apply remote_station_net_refused.
  - now apply remote_broadcast_net_refused.
Qed.
Print Assumptions C18_refuses_net_constructors.

(* station numbers above 255, at every entry point *)
Theorem C18_refuses_station : forall s, digits s = true -> 256 <= dec_val s ->
  decode_str s = Err ValueErr /\ forall n, digits n = true -> decode_str (n ++ 58 :: s) = Err ValueErr.
Proof.
  intros s H Hv. split; [now apply station_refused_text|]. intros n Hn. now apply net_station_refused_text.
Qed.
Print Assumptions C18_refuses_station.

Theorem C18_refuses_station_constructors : forall z, (z < 0 \/ 256 <= z)%Z ->
  address1 (AInt z) = Err ValueErr /\ local_station (AInt z) = Err ValueErr /\
  (forall n, exists e, address2 n (AInt z) = Err e) /\ (forall n, exists e, remote_station n (AInt z) = Err e).
Proof. exact int_refused. Qed.
Print Assumptions C18_refuses_station_constructors.

(* ports above 65535 (after the fix) and mask lengths above 32 *)
Theorem C18_refuses_port : forall h m p, 65535 < dec_val (odefault s47808 p) ->
  ip_from_text h m p = Err ValueErr.
Proof. exact ip_from_text_port_refused. Qed.
Print Assumptions C18_refuses_port.

Theorem C18_refuses_port_tuple : forall h port, (port < 0 \/ 65535 < port)%Z ->
  address1 (ATuple h port) = Err ValueErr.
Proof. exact tuple_port_refused. Qed.
Print Assumptions C18_refuses_port_tuple.

Theorem C18_refuses_mask : forall h m p, 32 < dec_val (odefault s32 m) -> exists e, ip_from_text h m p = Err e.
Proof. exact ip_from_text_mask_refused. Qed.
Print Assumptions C18_refuses_mask.

(* "*:<station>" (after the fix) *)
Theorem C18_refuses_star_station : forall cs c, nonl cs = true -> ~ In 64 cs ->
  match_core cs = Some c -> c <> CBcast -> decode_str (42 :: 58 :: cs) = Err ValueErr.
Proof. exact star_station_refused. Qed.
Print Assumptions C18_refuses_star_station.

(* ---------------------------------------------------------------- print, then parse *)
(* every route-free, non-null address with 1+ octets < 256 and network 0..65534: its printed
   form parses to an equal address (decimal for 1 octet, dotted for 6 octets with port
   47808..47823, hex otherwise) *)
Theorem C18_print_parse : forall a, wf_addr a ->
  exists s a', print a = Ok s /\ decode_str s = Ok a' /\ eqb a a' = true.
Proof. exact print_parse. Qed.
Print Assumptions C18_print_parse.

(* re-using an address object: whatever was decoded into it before (accepted or refused), the
   outcome of decode_address is that of a fresh Address(x) — the model has no state to inherit;
   the correspondence (object-history cases) ties this to the code *)
Theorem C18_decode_history_independent : forall h h' x,
  decode_on h x = decode_on h' x /\ decode_on h x = address1 x.
Proof. intros. split; reflexivity. Qed.
Print Assumptions C18_decode_history_independent.

(* ---------------------------------------------------------------- equality and hash *)
Theorem C18_eq_equivalence :
  (forall a, eqb a a = true) /\ (forall a b, eqb a b = eqb b a) /\
  (forall a b c, route a = None -> route b = None -> route c = None ->
                 eqb a b = true -> eqb b c = true -> eqb a c = true).
Proof. repeat split; [exact eqb_refl|exact eqb_sym|exact eqb_trans]. Qed.
Print Assumptions C18_eq_equivalence.

(* equal addresses have the same _tuple(), hence the same hash: route-free under either
   setting; with route_aware off (the default) for all addresses *)
Theorem C18_eq_hash : forall a b,
  (forall ra, route a = None -> route b = None -> eqb a b = true -> tuple ra a = tuple ra b) /\
  (eqb a b = true -> tuple false a = tuple false b).
Proof. intros a b. split; [intro ra; apply eqb_tuple|apply eqb_tuple_unaware]. Qed.
Print Assumptions C18_eq_hash.

(* outside the property's scope, recorded: with "@route" suffixes == is not transitive, and
   with route_aware on equal addresses can hash differently *)
Theorem C18_eq_routes_not_transitive_refuted :
  exists a b c, decode_str [53; 64; 54] = Ok a /\ decode_str [53] = Ok b /\ decode_str [53; 64; 55] = Ok c /\
                eqb a b = true /\ eqb b c = true /\ eqb a c = false.
Proof. exact eq_routes_not_transitive. Qed.
Print Assumptions C18_eq_routes_not_transitive_refuted.

Theorem C18_eq_hash_routes_refuted :
  exists a b, decode_str [53; 64; 54] = Ok a /\ decode_str [53] = Ok b /\
              eqb a b = true /\ tuple true a <> tuple true b.
Proof. exact eq_routes_hash_differs. Qed.
Print Assumptions C18_eq_hash_routes_refuted.

(* ---------------------------------------------------------------- non-vacuity *)
Example C18_ex_wf :
  wf_addr (mkAddr ARemoteStation (Some 65534%Z) (Some [1; 2; 3; 4; 186; 192]) None None).
Proof.
  split; [reflexivity|]. split.
  - exists 65534%Z. split; [reflexivity|lia].
  - exists [1; 2; 3; 4; 186; 192]. repeat split. discriminate.
Qed.
(* "65534:1.2.3.4" is what it prints as, and that parses back to the same key *)
Example C18_ex_print :
  print (mkAddr ARemoteStation (Some 65534%Z) (Some [1; 2; 3; 4; 186; 192]) None None)
  = Ok [54; 53; 53; 51; 52; 58; 49; 46; 50; 46; 51; 46; 52].
Proof. vm_compute. reflexivity. Qed.
(* a 7-octet MAC ending in 0xBAC0 behind a network prints in hex, not as a dotted quad *)
Example C18_ex_print7 :
  print (mkAddr ARemoteStation (Some 1%Z) (Some [10; 20; 30; 40; 50; 186; 192]) None None)
  = Ok ([49; 58; 48; 120] ++ btox [10; 20; 30; 40; 50; 186; 192]).
Proof. vm_compute. reflexivity. Qed.
Example C18_ex_digits : digits [50; 53; 53] = true /\ dec_val [50; 53; 53] = 255 /\ hex_pairs [48; 97; 70; 102] = true
  /\ aton_part [48; 49; 48] = Some 8 /\ opt_digits (Some [50; 52]) = true.
Proof. vm_compute. repeat split. Qed.
(* "1.2.3.4/24:47809": subnet 1.2.3.0, host 4, directed broadcast 1.2.3.255 *)
Example C18_ex_ip :
  canon_addr_r (decode_str [49;46;50;46;51;46;52;47;50;52;58;52;55;56;48;57]) =
  canon_addr_r (Ok (mkAddr ALocalStation None (Some [1;2;3;4;186;193]) None
     (Some (mkIp 16909060%Z 4294967040%Z (Some 4%Z) (Some 16909056%Z) 47809%Z [49;46;50;46;51;46;52]
                 [49;46;50;46;51;46;50;53;53])))).
Proof. vm_compute. reflexivity. Qed.
Example C18_ex_refusals :
  decode_str [54;53;53;51;53;58;53] = Err ValueErr /\ decode_str [50;53;54] = Err ValueErr /\
  address2 70000 (AInt 5) = Err ValueErr /\ decode_str [42;58;53] = Err ValueErr /\
  decode_str [49;46;50;46;51;46;52;58;55;48;48;48;48] = Err ValueErr.
Proof. vm_compute. repeat split. Qed.

(* b"*" and b"*:*" are the stations 0x2A and 0x2A3A2A (printed "42" and "0x2a3a2a"), Address(9, b"*") is 9:42 *)
Example C18_ex_octets_not_wildcards :
  decode_address (ABytes [42]) = Ok (station [42]) /\
  decode_address (ABytes [42; 58; 42]) = Ok (station [42; 58; 42]) /\
  address2 9 (ABytes [42]) = Ok (mkAddr ARemoteStation (Some 9%Z) (Some [42]) None None) /\
  (do a <- decode_address (ABytes [42; 58; 42]); print a) = Ok [48; 120; 50; 97; 51; 97; 50; 97] /\
  decode_address (AAddr (mkAddr ALocalBroadcast None None (Some [9]) None)) = Ok bcast_local /\
  decode_address (AAddr (station [42])) = Err TypeErr /\
  decode_address (AStr [32; 42]) = Err ValueErr /\ decode_address (AStr [42; 32]) = Err ValueErr.
Proof. vm_compute. repeat split. Qed.
