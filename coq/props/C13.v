(* C13 — B/IP broadcasts reach every node once; foreign registrations expire on time.
   Property theorems only; proofs live in Bac.BipFacts / Bac.IpNetFacts.
   Models: Bac.Bip (bvllservice.BIPSimple/BIPForeign/BIPBBMD), Bac.IpNet (vlan.IPNetwork/IPRouter,
   multiplexer, timers).  `bbmd_run b es` is the BBMD after ANY history es of arriving frames,
   own broadcasts and 1 s ticks. *)
From Coq Require Import Permutation.
From Bac Require Import Base Bip BipFacts IpNet IpNetFacts BipDeliv BipDelivFacts BipDelivTie CascadeTree CascadeNet CascadeFacts CascadeStep BipLife BipLifeFacts.
Open Scope N_scope.

(* one table entry per address, under any history *)
Theorem C13_fdt_nodup : forall b es, b_fdt b = [] -> NoDup (map fd_addr (b_fdt (bbmd_run b es))).
Proof. exact fdt_nodup. Qed.
Print Assumptions C13_fdt_nodup.

(* registered with time-to-live T: listed after every history containing fewer than T+5 ticks
   (remaining time T+5-k), absent from tick T+5 on — unless it registers again or is deleted
   (`quiet src` excludes exactly those two events, everything else is arbitrary) *)
Theorem C13_fdt_served_window : forall b src d T es,
  NoDup (map fd_addr (b_fdt b)) -> Forall (quiet src) es ->
  let b1 := fst (bbmd_step b (BConf src d (RegisterFD T))) in
  (ticks es < T + 5 -> listed (b_fdt (bbmd_run b1 es)) src = true) /\
  (T + 5 <= ticks es -> listed (b_fdt (bbmd_run b1 es)) src = false) /\
  (ticks es < T + 5 -> exists a', a' = src /\
     find (b_fdt (bbmd_run b1 es)) src = Some (mkFdte a' T (T + 5 - ticks es))).
Proof. exact fdt_served_window. Qed.
Print Assumptions C13_fdt_served_window.

(* "served" = addressed by the BBMD's forwarding: exactly the listed addresses *)
Theorem C13_served_iff_listed : forall b o p a,
  (listed (b_fdt b) a = true ->
     In (Down (DStation a) (Forwarded o p)) (snd (bbmd_confirmation b o DBcast (OrigBroadcast p)))) /\
  (listed (b_fdt b) a = false ->
     ~ In (Down (DStation a) (Forwarded o p)) (to_fdt (b_fdt b) (Forwarded o p))).
Proof. exact served_iff_listed. Qed.
Print Assumptions C13_served_iff_listed.

(* the device re-registers after T s; exactly T of the BBMD's ticks fall in between, fewer than
   the T+5 its entry lasts (with C13_fdt_served_window: still listed, 5 s to spare) *)
Theorem C13_renewal_before_expiry : forall now f f' acts t a,
  f_bbmd f = Some a -> f_ttl f = Some t -> (0 < t)%Z ->
  foreign_renew now f = Ok (f', acts) ->
  f_renew f' = Some (now + t * 1000)%Z /\
  acts = [Down (DStation a) (RegisterFD (Z.to_N t mod 65536))] /\
  ((now + t * 1000) / 1000 - now / 1000 = t)%Z /\ (t < t + 5)%Z.
Proof. exact renewal_before_expiry. Qed.
Print Assumptions C13_renewal_before_expiry.

(* the device's own view: an acknowledgement arms a T+30 s timeout (not shorter than the BBMD's T+5) *)
Theorem C13_ack_sets_expiry : forall now f src d t a,
  f_status f <> (-2)%Z -> f_bbmd f = Some a -> f_ttl f = Some t -> src = a ->
  exists f', foreign_confirmation now f src d (Result 0) = Ok (f', []) /\
             f_status f' = 0%Z /\ f_expire f' = Some (now + (t + 30) * 1000)%Z /\ (t + 5 <= t + 30)%Z.
Proof. exact ack_sets_expiry. Qed.
Print Assumptions C13_ack_sets_expiry.

(* Delete-Foreign-Device-Table-Entry takes effect with the frame itself *)
Theorem C13_delete_immediate : forall b s d a,
  NoDup (map fd_addr (b_fdt b)) ->
  let r := bbmd_confirmation b s d (DeleteFDT a) in
  listed (b_fdt (fst r)) a = false /\
  snd r = [Down (DStation s) (Result (if listed (b_fdt b) a then 0 else 80))].
Proof. exact delete_immediate. Qed.
Print Assumptions C13_delete_immediate.

(* unregister(): the device stops at once on its own side ... *)
Theorem C13_unregister_stops_device : forall f f' acts,
  foreign_unregister f = Ok (f', acts) ->
  (exists a, f_bbmd f = Some a /\ acts = [Down (DStation a) (RegisterFD 0)]) /\
  f_status f' = (-2)%Z /\
  (forall p, foreign_indication f' DBcast p = Ok []) /\
  (forall now src d a p, foreign_confirmation now f' src d (Forwarded a p) = Ok (f', [])).
Proof. exact unregister_stops_device. Qed.
Print Assumptions C13_unregister_stops_device.

(* ... and its entry (time-to-live 0) is gone after 5 ticks, the grace period *)
Theorem C13_unregister_within_grace : forall b src d es,
  NoDup (map fd_addr (b_fdt b)) -> Forall (quiet src) es -> 5 <= ticks es ->
  listed (b_fdt (bbmd_run (fst (bbmd_step b (BConf src d (RegisterFD 0)))) es)) src = false.
Proof. exact unregister_within_grace. Qed.
Print Assumptions C13_unregister_within_grace.

(* per-frame forwarding decisions, any state, any frame *)
Theorem C13_source_preserved : forall b s d m o p,
  (m = OrigBroadcast p /\ o = s) \/ (m = Distribute p /\ o = s) \/ (m = Forwarded o p) ->
  Forall (fun a => origin_of a = Some (o, p)) (snd (bbmd_confirmation b s d m)).
Proof. exact bbmd_source_preserved. Qed.
Print Assumptions C13_source_preserved.

Theorem C13_no_reforward : forall b s d a p x m,
  In (Down x m) (snd (bbmd_confirmation b s d (Forwarded a p))) ->
  (x = DBcast /\ exists u, d = DStation u) \/ (exists y, x = DStation y /\ listed (b_fdt b) y = true).
Proof. exact bbmd_no_reforward. Qed.
Print Assumptions C13_no_reforward.

Theorem C13_distribute_no_echo : forall b s m,
  ~ In (Down (DStation s) m) (to_fdt (filter (fun e => negb (addr_eqb (fd_addr e) s)) (b_fdt b)) m).
Proof. exact bbmd_distribute_no_echo. Qed.
Print Assumptions C13_distribute_no_echo.

Theorem C13_simple_delivers_once : forall s d p o,
  simple_confirmation s d (OrigBroadcast p) = [Up s DBcast p] /\
  simple_confirmation s d (Forwarded o p) = [Up o DBcast p].
Proof. exact simple_delivers_once. Qed.
Print Assumptions C13_simple_delivers_once.

Theorem C13_foreign_accepts_from_bbmd : forall now f s d o p b,
  f_bbmd f = Some b ->
  foreign_confirmation now f s d (Forwarded o p) =
  Ok (f, if (f_status f =? 0)%Z && addr_eqb s b then [Up o DBcast p] else []).
Proof. exact foreign_accepts_from_bbmd. Qed.
Print Assumptions C13_foreign_accepts_from_bbmd.

(* ---------------------------------------------------------------------------------------------
   C13_broadcast_once for configurations of ARBITRARY size.
   `acfg` (BipDeliv.v) = any list of subnets (BBMD, the mask its peers list it with — /32 "two-hop"
   or the subnet mask "one-hop", chosen per peer —, its broadcast address, any list of ordinary
   nodes), any list of foreign devices each registered with one of the BBMDs, and `a_keep` = which
   BBMD lists which (full c := everybody lists everybody, itself included).  `wf c`: node
   addresses pairwise different, broadcast addresses pairwise different and different from node
   addresses, every device's BBMD exists, every entry's forwarding address is the peer itself or
   the peer's subnet broadcast (decidable: C13_wf_decidable).
   `broadcast n c o p` = the deliveries caused by node o broadcasting p, computed with Bip.v's
   step functions (simple_/bbmd_/foreign_confirmation, *_indication — the functions tied to the
   code by the node-* correspondence) along the delivery tree, to depth 4+n for any n.
   PROVED FOR ALL SIZES (induction over the lists): every delivery is a broadcast showing the
   originator; no address receives two copies; the originator receives none; with full tables
   every other node receives one.
   NOT PROVED FOR ALL SIZES: that the delivery-tree semantics coincides with the FIFO cascade of
   IpNet.v (IP masks, router, queue).  That link is (a) proved on the completely swept family of
   774 configurations and every origin (C13_deliv_matches_cascade, C13_family_wf), and (b) checked
   on every run against the IMPLEMENTATION directly by the deliv-* correspondence cases (random
   configurations of up to 8 BBMD subnets, 5 ordinary nodes each, 6 foreign devices, full and
   partial tables). *)
Theorem C13_broadcast_once : forall c o n p, wf c -> In o (all_rcvs c) ->
  let D := broadcast n c o p in
  (forall d, In d D -> d = (d_who d, rcv_addr o, DBcast, p)) /\
  NoDup (map d_addr D) /\
  ~ In (rcv_addr o) (map d_addr D) /\
  (full c -> forall a, In a (all_addrs c) -> a <> rcv_addr o -> In a (map d_addr D)).
Proof. exact broadcast_once_any_size. Qed.
Print Assumptions C13_broadcast_once.

(* the same as a count *)
Theorem C13_broadcast_count : forall c o n p a, wf c -> full c -> In o (all_rcvs c) -> In a (all_addrs c) ->
  count_occ addr_eq_dec (map d_addr (broadcast n c o p)) a = if addr_eq_dec a (rcv_addr o) then 0%nat else 1%nat.
Proof. exact broadcast_count_any_size. Qed.
Print Assumptions C13_broadcast_count.

(* partial distribution tables (ANY a_keep, any size; "_partial" = partial tables, the statement is
   proved in full): no duplicates, no echo, true source *)
Theorem C13_no_duplicates_no_echo_partial : forall c o n p, wf c -> In o (all_rcvs c) ->
  let D := broadcast n c o p in
  NoDup (map d_addr D) /\ ~ In (rcv_addr o) (map d_addr D) /\
  (forall d, In d D -> d = (d_who d, rcv_addr o, DBcast, p)).
Proof.
  intros c o n p W I. destruct (broadcast_once_any_size c o n p W I) as [L [N [E _]]]. auto.
Qed.
Print Assumptions C13_no_duplicates_no_echo_partial.

Theorem C13_wf_decidable : forall c, wf_b c = true -> wf c.
Proof. exact wf_b_sound. Qed.
Print Assumptions C13_wf_decidable.

(* tie of the delivery-tree semantics to the network model, swept family *)
Theorem C13_family_wf : forall c, In c family -> wf (abs_cfg c).
Proof. exact family_wf. Qed.
Print Assumptions C13_family_wf.
Theorem C13_deliv_matches_cascade : forall c, In c family -> same_deliveries c = true.
Proof. exact deliv_matches_cascade. Qed.
Print Assumptions C13_deliv_matches_cascade.

(* The cascade model itself (IpNet.v), PARTIAL: proved for the completely swept family of 774 well-formed
   configurations (1..3 subnets each with a BBMD and 0..2 ordinary nodes, every per-peer choice of
   /32 two-hop or /24 one-hop table entries, full tables, 0..2 foreign devices registered from a
   BBMD-less subnet) and every originating node: running the network model to quiescence hands the
   broadcast to every other node exactly once, as a broadcast, showing the originator's address,
   and never to the originator (bcast_ok, spelled out by C13_broadcast_once_spec).
   MISSING: the same statement about IpNet.cascade for configurations of arbitrary size; for all
   sizes the statement is C13_broadcast_once above, about the delivery-tree semantics. *)
Theorem C13_broadcast_once_partial : forall c w o,
  In c family -> cfg_world c = Ok w -> (o < length (w_nodes w))%nat -> bcast_ok w o = true.
Proof. exact broadcast_once_family. Qed.
Print Assumptions C13_broadcast_once_partial.

Theorem C13_broadcast_once_spec : forall w o, bcast_ok w o = true ->
  exists no w' log, nth_error (w_nodes w) o = Some no /\ step w 900%Z (EBcast o 777) = Ok (w', log) /\
    (forall i s d p, In (i, s, d, p) (ups log) -> s = n_addr no /\ d = DBcast /\ p = 777) /\
    (forall i, (i < length (w_nodes w))%nat ->
       length (filter (fun x => match x with (j, _, _, _) => Nat.eqb i j end) (ups log))
       = if Nat.eqb i o then 0%nat else 1%nat).
Proof. exact bcast_ok_spec. Qed.
Print Assumptions C13_broadcast_once_spec.

(* reported separately (known finding C13-K1, not a failure of the served-window clause): a BBMD
   distributes a Distribute-Broadcast-To-Network from a source it does not list *)
Theorem C13_distribute_from_unlisted_refuted :
  exists b s p, listed (b_fdt b) s = false /\
    In (Down DBcast (Forwarded s p)) (snd (bbmd_confirmation b s (DStation (b_addr b)) (Distribute p))).
Proof. exact distribute_unlisted_witness. Qed.
Print Assumptions C13_distribute_from_unlisted_refuted.

(* ---------------------------------------------------------------------------------------------
   Round 3: the delivery-tree semantics EQUALS the cascade model (IpNet.v: masks, router, FIFO
   queue) on EVERY well-formed configuration, any size, any mix of entry styles, full or partial
   tables.  `world_of c lans sl fl now` is the IpNet world of configuration c: the nodes of c in
   the order of all_rcvs, subnet s on LAN `sl s`, foreign device x on LAN `fl x`.  `net_ok` says the
   placement is sound: the router sends every node / broadcast address to exactly its own LAN
   (`homes`, computed with the same mask test as IpNet.routed), LAN `sl s` has broadcast address
   sb_bcast s, one BBMD subnet per LAN, foreign devices on LANs without BBMD, no node address is a
   LAN broadcast address.  `emitted ... o (originate c o p)` are the datagrams node o puts on its
   LAN (IpNet.emit), i.e. the queue IpNet.do_event (EBcast) starts the cascade with.
   Proof: (1) CascadeTree.cascade_is_forest — for any world, as long as no node changes state the
   FIFO cascade's log is a permutation of the delivery forest of its queue (queue order is
   irrelevant); (2) hop / arrive_ucast / arrive_bcast — away from its home LAN nobody hears a
   datagram and the router copies it to the home LAN only; there exactly BipDeliv.receivers hear
   it; (3) react_ok — reactions to Original-Broadcast / Forwarded-NPDU (and a BBMD's to
   Distribute-Broadcast) are stateless and stay in that class; (4) pend_origin — the tree of a
   broadcast is complete within depth 4; induction over the depth (cascade_spread).
   The fuel hypothesis is necessary: IpNet.cascade stops with OutOfFuel otherwise (IpNet.act
   supplies cascade_fuel = 4000 datagrams). *)
Theorem C13_cascade_equals_delivery : forall c lans sl fl now, wf c -> net_ok c lans sl fl ->
  forall o n p fuel, In o (all_rcvs c) ->
  (list_sum (map (tsize (2 * (3 + n)) (world_of c lans sl fl now)) (emitted c lans sl fl now o (originate c o p))) < fuel)%nat ->
  exists log, cascade fuel (world_of c lans sl fl now) (emitted c lans sl fl now o (originate c o p)) [] = Ok (world_of c lans sl fl now, log) /\
              Permutation (up_addrs (world_of c lans sl fl now) log) (map dl (broadcast n c o p)).
Proof. exact cascade_equals_delivery. Qed.
Print Assumptions C13_cascade_equals_delivery.

(* C13_broadcast_once for the cascade model itself, every size *)
Theorem C13_cascade_broadcast_once : forall c lans sl fl now o n p fuel,
  wf c -> net_ok c lans sl fl -> In o (all_rcvs c) ->
  let w := world_of c lans sl fl now in
  let q := emitted c lans sl fl now o (originate c o p) in
  (list_sum (map (tsize (2 * (3 + n)) w) q) < fuel)%nat ->
  exists log, cascade fuel w q [] = Ok (w, log) /\
    let D := up_addrs w log in
    (forall d, In d D -> d = (a_rcv d, rcv_addr o, DBcast, p)) /\
    NoDup (map a_rcv D) /\
    ~ In (rcv_addr o) (map a_rcv D) /\
    (full c -> forall a, In a (all_addrs c) -> a <> rcv_addr o -> In a (map a_rcv D)).
Proof. exact cascade_broadcast_once. Qed.
Print Assumptions C13_cascade_broadcast_once.

(* the same through the model's own event function IpNet.do_event (EBcast i p), with the fuel the
   model supplies (cascade_fuel = 4000 datagrams) *)
Theorem C13_do_event_broadcast_once : forall c lans sl fl now i o n p,
  wf c -> net_ok c lans sl fl -> nth_error (all_rcvs c) i = Some o ->
  let w := world_of c lans sl fl now in
  (list_sum (map (tsize (2 * (3 + n)) w) (emitted c lans sl fl now o (originate c o p))) < cascade_fuel)%nat ->
  exists log, do_event w (EBcast i p) [] = Ok (w, log) /\
    let D := up_addrs w log in
    Permutation D (map dl (broadcast n c o p)) /\
    (forall d, In d D -> d = (a_rcv d, rcv_addr o, DBcast, p)) /\
    NoDup (map a_rcv D) /\ ~ In (rcv_addr o) (map a_rcv D) /\
    (full c -> forall a, In a (all_addrs c) -> a <> rcv_addr o -> In a (map a_rcv D)).
Proof. exact do_event_broadcast_once. Qed.
Print Assumptions C13_do_event_broadcast_once.

(* the queue lemma on its own: any world, any queue order *)
Theorem C13_cascade_order_irrelevant : forall n w fuel q log,
  Forall (good n w) q -> (list_sum (map (tsize n w) q) < fuel)%nat ->
  exists log', cascade fuel w q log = Ok (w, log') /\ Permutation log' (log ++ flat_map (tree n w) q).
Proof. exact cascade_is_forest. Qed.
Print Assumptions C13_cascade_order_irrelevant.

(* ---------------------------------------------------------------------------------------------
   Round 6: ONE REGISTRATION, BOTH ENDS, ANY NUMBER OF RENEWALS (BipLife.v).  `pair_run me rounds s`
   composes Bip.v's own step functions: per round the device's task fires at its due instant r
   (foreign_renew; an expiry of _registration_timeout_task due by then fires first: fire_expiry),
   the frames it addresses to the BBMD go through bbmd_confirmation, the frames the BBMD addresses
   to the device go through foreign_confirmation d ms later (again after a due expiry), then the
   BBMD lives through `es` (1 s ticks, any frames).  `inv` = the state register() leaves
   (C13_register_starts_life); `round_fine` = the answer takes 0 <= d < 30 s, the BBMD sees fewer
   than T+5 ticks and no other registration / deletion of this address before the next renewal
   (exactly T ticks lie between two renewals: C13_renewal_before_expiry).  0 < T < 65536: the TTL
   field of Register-Foreign-Device has 16 bits.
   After EVERY such sequence of rounds (every prefix is one): status 0, listed with T+5-ticks
   seconds left, own expiry at least 30 s beyond the next renewal — hence (C13_no_expiry_while_renewing)
   the expiry never fires while the renewals go on, and (C13_alive_is_served) the BBMD addresses a
   copy of every broadcast to the device, the device hands it up and distributes its own. *)
Theorem C13_renewing_device_stays_served : forall me T rounds s d es,
  (0 < T < 65536)%Z -> inv me T s -> Forall (round_fine me T) (rounds ++ [(d, es)]) ->
  exists s', pair_run me (rounds ++ [(d, es)]) s = Ok s' /\ alive me T es s'.
Proof. exact pair_alive. Qed.
Print Assumptions C13_renewing_device_stays_served.

Theorem C13_no_expiry_while_renewing : forall me T last s, alive me T last s ->
  exists r, f_renew (p_dev s) = Some r /\
    forall t, (t < r + 30000)%Z -> fire_expiry t (p_dev s) = p_dev s /\ f_status (fire_expiry t (p_dev s)) = 0%Z.
Proof. exact no_expiry_while_renewing. Qed.
Print Assumptions C13_no_expiry_while_renewing.

Theorem C13_alive_is_served : forall me T last s o p now d, alive me T last s ->
  In (Down (DStation me) (Forwarded o p)) (snd (bbmd_confirmation (p_bbmd s) o DBcast (OrigBroadcast p))) /\
  foreign_confirmation now (p_dev s) (b_addr (p_bbmd s)) d (Forwarded o p) = Ok (p_dev s, [Up o DBcast p]) /\
  foreign_indication (p_dev s) DBcast p = Ok [Down (DStation (b_addr (p_bbmd s))) (Distribute p)].
Proof. exact alive_is_served. Qed.
Print Assumptions C13_alive_is_served.

Theorem C13_register_starts_life : forall me T f f' b,
  foreign_register f (b_addr b) T = Ok f' -> NoDup (map fd_addr (b_fdt b)) -> inv me T (mkPair f' b) /\ (0 < T)%Z.
Proof. exact register_gives_inv. Qed.
Print Assumptions C13_register_starts_life.

(* T < 65536 is necessary in C13_renewing_device_stays_served: with TTL 65537 (outside the property's 1..300 s) the
   Register-Foreign-Device frame carries 1, and after one fine round with six ticks the acknowledged device
   (status 0) is no longer listed *)
Theorem C13_ttl_over_16_bits_refuted :
  exists me T f' b d es s',
    foreign_register (mkForeign (-1) None None None None) (b_addr b) T = Ok f' /\
    inv me T (mkPair f' b) /\ round_fine me T (d, es) /\ (65536 <= T)%Z /\
    pair_run me [(d, es)] (mkPair f' b) = Ok s' /\
    f_status (p_dev s') = 0%Z /\ listed (b_fdt (p_bbmd s')) me = false.
Proof. exact ttl_over_16_bits_witness. Qed.
Print Assumptions C13_ttl_over_16_bits_refuted.

(* ... and when the answers stop, the device gives up by itself at the instant the last
   acknowledgement armed (last ack + (T+30) s: C13_ack_sets_expiry): status -1, nothing accepted,
   nothing distributed.  (The BBMD's side of the same silence is C13_fdt_served_window.) *)
Theorem C13_device_expires_after_silence : forall t f e, f_expire f = Some e -> (e <= t)%Z ->
  f_status (fire_expiry t f) = (-1)%Z /\ f_expire (fire_expiry t f) = None /\
  (forall now s d a p, f_bbmd f <> None -> exists b, f_bbmd f = Some b /\
      foreign_confirmation now (fire_expiry t f) s d (Forwarded a p) = Ok (fire_expiry t f, [])) /\
  (forall p, foreign_indication (fire_expiry t f) DBcast p = Ok []).
Proof. exact expiry_fires. Qed.
Print Assumptions C13_device_expires_after_silence.

(* the 1 s tick, entry by entry: the table after a tick is the list of entries with more than one
   second left, in the same order, each one second older — no entry is skipped or aged twice,
   whatever is removed next to it *)
Theorem C13_tick_ages_every_entry : forall t,
  fdt_tick t = map dec (filter (fun e => 1 <? fd_remain e) t).
Proof. exact tick_ages_every_entry. Qed.
Print Assumptions C13_tick_ages_every_entry.

Theorem C13_tick_listed : forall t a,
  listed (fdt_tick t) a = true <-> exists e, In e t /\ fd_addr e = a /\ 1 < fd_remain e.
Proof. exact tick_listed. Qed.
Print Assumptions C13_tick_listed.

(* several devices registered with the same time-to-live between two ticks (any number, any order,
   any other quiet traffic afterwards): each is listed exactly while fewer than T+5 ticks have passed —
   they all leave the table in the same tick *)
Theorem C13_group_expiry : forall srcs b d T es,
  NoDup (map fd_addr (b_fdt b)) -> NoDup srcs ->
  (forall s, In s srcs -> Forall (quiet s) es) ->
  forall s, In s srcs ->
  listed (b_fdt (bbmd_run (register_all b d T srcs) es)) s = (ticks es <? T + 5).
Proof. exact group_expiry. Qed.
Print Assumptions C13_group_expiry.

(* a foreign device never hands an Original-Broadcast-NPDU to its network layer (the copy that counts
   is its BBMD's Forwarded-NPDU), in any state; what it does hand up as a broadcast is a
   Forwarded-NPDU from its own BBMD while registered (or a unicast that arrived by broadcast) *)
Theorem C13_foreign_drops_original_broadcast : forall now f s d p,
  foreign_confirmation now f s d (OrigBroadcast p) = Ok (f, []).
Proof. exact foreign_drops_original_broadcast. Qed.
Print Assumptions C13_foreign_drops_original_broadcast.

Theorem C13_foreign_up_only_from_bbmd : forall now f s d m f' acts src p,
  foreign_confirmation now f s d m = Ok (f', acts) -> In (Up src DBcast p) acts ->
  (exists a, m = Forwarded a p /\ src = a /\ f_bbmd f = Some s /\ f_status f = 0%Z) \/
  (m = OrigUnicast p /\ d = DBcast /\ src = s).
Proof. exact foreign_up_only_from_bbmd. Qed.
Print Assumptions C13_foreign_up_only_from_bbmd.

(* non-vacuity *)
Example C13_window_example :
  let b := mkBbmd (mkA 167837954 47808) [] [] true in
  let src := mkA 180879400 47808 in
  let es := [BTick; BConf (mkA 167838042 47808) (DStation (mkA 167837954 47808)) ReadFDT; BTick; BInd DBcast 9; BTick] in
  NoDup (map fd_addr (b_fdt b)) /\ Forall (quiet src) es /\ ticks es = 3 /\
  find (b_fdt (bbmd_run (fst (bbmd_step b (BConf src DBcast (RegisterFD 1)))) es)) src = Some (mkFdte src 1 3).
Proof.
  cbv zeta. split; [constructor|]. split; [repeat constructor|]. split; vm_compute; reflexivity.
Qed.
Example C13_family_example :
  In (mkCfg [2; 0; 1]%nat [true; false; true] 2) family /\
  exists w, cfg_world (mkCfg [2; 0; 1]%nat [true; false; true] 2) = Ok w /\ length (w_nodes w) = 8%nat.
Proof. exact family_member. Qed.
Example C13_renewal_example :
  exists f', foreign_renew 500 (mkForeign 0 (Some (mkA 167837954 47808)) (Some 30%Z) None None) = Ok f'.
Proof. eexists. reflexivity. Qed.

Example C13_any_size_example :
  let c := mkAcfg
    (map (fun k => mkSub (mkA (167772162 + 65536 * k) 47808) (if N.even k then 4294967295 else 4294967040)
                         (mkA (167772415 + 65536 * k) 47808)
                         (map (fun j => mkA (167772170 + 65536 * k + j) 47808) [0; 1; 2; 3; 4; 5; 6]))
         [1; 2; 3; 4; 5; 6; 7; 8; 9; 10; 11; 12])
    (map (fun j => (mkA (180879400 + j) 47808, mkA (167772162 + 65536 * (1 + j mod 12)) 47808)) [0; 1; 2; 3; 4; 5; 6; 7; 8; 9])
    keep_all in
  wf c /\ full c /\ length (all_rcvs c) = 106%nat /\
  length (broadcast 0 c (RS (nth 3 (a_subs c) (mkSub (0,0) 0 (0,0) [])) (mkA (167772170 + 65536 * 4 + 2) 47808)) 5) = 105%nat.
Proof.
  cbv zeta. split; [apply wf_b_sound; vm_compute; reflexivity|]. split; [intros b p; reflexivity|].
  split; vm_compute; reflexivity.
Qed.

(* net_ok and wf are satisfiable together: two subnets (one listed /32, one with its subnet mask),
   three ordinary nodes, two foreign devices on a third LAN; the cascade with 100 datagrams of fuel *)
Definition ex_c : acfg :=
  mkAcfg [mkSub (mkA 167837954 47808) 4294967295 (mkA 167838207 47808) [mkA 167837962 47808];
          mkSub (mkA 167903746 47808) 4294967040 (mkA 167903999 47808) [mkA 167903754 47808; mkA 167903755 47808]]
         [(mkA 180879400 47808, mkA 167837954 47808); (mkA 180879401 47808, mkA 167903746 47808)] keep_all.
Definition ex_lans : list lan := [mkLan 167837952 4294967040 47808; mkLan 167903744 4294967040 47808; mkLan 180879360 4294967040 47808].
Definition ex_sl (s : sub) : nat := if fst (sb_bbmd s) =? 167837954 then 0%nat else 1%nat.
Definition ex_fl (x : addr * addr) : nat := 2%nat.
Example C13_net_ok_example :
  wf ex_c /\ net_ok ex_c ex_lans ex_sl ex_fl /\
  (list_sum (map (tsize (2 * (3 + 0)) (world_of ex_c ex_lans ex_sl ex_fl 0))
                 (emitted ex_c ex_lans ex_sl ex_fl 0 (RF (mkA 180879401 47808, mkA 167903746 47808))
                          (originate ex_c (RF (mkA 180879401 47808, mkA 167903746 47808)) 9))) < 100)%nat.
Proof.
  split; [apply wf_b_sound; vm_compute; reflexivity|]. split.
  - split.
    + intros r I; cbn in I; repeat (destruct I as [<-|I]; [vm_compute; lia|]); contradiction.
    + intros r I; cbn in I; repeat (destruct I as [<-|I]; [vm_compute; reflexivity|]); contradiction.
    + intros s I; cbn in I; repeat (destruct I as [<-|I]; [vm_compute; reflexivity|]); contradiction.
    + intros s I; cbn in I; repeat (destruct I as [<-|I]; [vm_compute; reflexivity|]); contradiction.
    + intros l Hl. destruct l as [|[|[|l]]]; [vm_compute; auto | vm_compute; auto | vm_compute; auto | cbn in Hl; lia].
    + intros s s' I I' E; cbn in I, I'.
      repeat (destruct I as [<-|I]; [repeat (destruct I' as [<-|I']; [first [reflexivity | vm_compute in E; discriminate]|]); contradiction|]); contradiction.
    + intros x s Ix Is; cbn in Ix, Is.
      repeat (destruct Ix as [<-|Ix]; [repeat (destruct Is as [<-|Is]; [vm_compute; discriminate|]); contradiction|]); contradiction.
    + intros r l I Hl. destruct l as [|[|[|l]]]; [| | | cbn in Hl; lia];
        cbn in I; repeat (destruct I as [<-|I]; [vm_compute; discriminate|]); contradiction.
  - vm_compute. lia.
Qed.

(* round 6 non-vacuity: a device registers with TTL 7 (not a divisor of 30), renews five times with
   answers 0..29.999 s late while two other devices come and go at the BBMD: still alive *)
Example C13_life_example :
  let me := mkA 180879400 47808 in
  let b := mkBbmd (mkA 167837954 47808) [] [mkFdte (mkA 180879401 47808) 30 12] true in
  let other := BConf (mkA 180879402 47808) (DStation (mkA 167837954 47808)) (RegisterFD 1) in
  let es := [BTick; BTick; other; BTick; BTick; BTick; BInd DBcast 5; BTick; BTick] in
  let rounds := [(0, es); (29999, es); (1, es); (250, es); (12000, es ++ [BTick; BTick; BTick])]%Z in
  exists f' s', foreign_register (mkForeign (-2) None None None None) (b_addr b) 7 = Ok f' /\
    inv me 7 (mkPair f' b) /\ Forall (round_fine me 7) rounds /\
    pair_run me rounds (mkPair f' b) = Ok s' /\ f_status (p_dev s') = 0%Z /\
    f_renew (p_dev s') = Some 35000%Z /\ f_expire (p_dev s') = Some 77000%Z /\
    find (b_fdt (p_bbmd s')) me = Some (mkFdte me 7 2).
Proof.
  cbv zeta. eexists. eexists. split; [reflexivity|]. split.
  - apply (register_gives_inv _ 7%Z (mkForeign (-2) None None None None)); [reflexivity|].
    cbn. constructor; [intros []|constructor].
  - split.
    + repeat (constructor; [split; [cbn; lia|split; [repeat constructor; cbn; try discriminate; congruence|vm_compute; reflexivity]]|]). constructor.
    + split; [vm_compute; reflexivity|]. repeat split.
Qed.
Example C13_group_example :
  let b := mkBbmd (mkA 167837954 47808) [] [] true in
  let srcs := [mkA 180879400 47808; mkA 180879401 47808; mkA 180879402 47808] in
  NoDup srcs /\ (forall s, In s srcs -> Forall (quiet s) [BTick; BTick; BTick; BTick; BTick; BTick]) /\
  b_fdt (bbmd_run (register_all b DBcast 1 srcs) [BTick; BTick; BTick; BTick; BTick]) =
    map (fun s => mkFdte s 1 1) srcs /\
  b_fdt (bbmd_run (register_all b DBcast 1 srcs) [BTick; BTick; BTick; BTick; BTick; BTick]) = [].
Proof.
  cbv zeta. split.
  - repeat constructor; cbn; intuition discriminate.
  - split; [intros s _; repeat constructor|]. split; vm_compute; reflexivity.
Qed.
