(* C07 — APDU fixed headers carry every field of all eight PDU types faithfully.
   Property theorems only; proofs live in Bac.ApciHdr / ApciDec / ApciTypes (header codec model
   Bac.Apci) and Bac.ApciFacts (the AST-translated code tables BacGen.ApduFns). *)
From Bac Require Import Base PyRt Apci ApciHdr ApciDec ApciTypes ApciFacts ApciSession ApciSessionFacts ApciRt ApciGenFacts.
From BacGen Require Import ApduFns ApciFns.
Open Scope N_scope.

(* ---- round trip, per PDU type.  `roundtrips a octets` :=  for every payload,
        enc_apdu a payload = Ok (octets ++ payload)  /\  dec_apci (octets ++ payload) = Ok (a, payload):
   every in-range field combination encodes, and decoding restores exactly the same attribute
   set (attributes the type does not carry stay None) with the payload untouched. *)
Theorem C07_roundtrip_confirmed_request : forall seg mor sa ms mr inv sq wn svc,
  ms < 8 -> mr < 16 -> inv < 256 -> sq < 256 -> wn < 256 -> svc < 256 ->
  roundtrips (confirmed_request_attrs seg mor sa ms mr inv sq wn svc)
             (confirmed_request_octets seg mor sa ms mr inv sq wn svc).
Proof. exact roundtrip_confirmed_request. Qed.
Print Assumptions C07_roundtrip_confirmed_request.

Theorem C07_roundtrip_unconfirmed_request : forall svc, svc < 256 ->
  roundtrips (unconfirmed_request_attrs svc) [16; svc].
Proof. exact roundtrip_unconfirmed_request. Qed.
Print Assumptions C07_roundtrip_unconfirmed_request.

Theorem C07_roundtrip_simple_ack : forall inv svc, inv < 256 -> svc < 256 ->
  roundtrips (simple_ack_attrs inv svc) [32; inv; svc].
Proof. exact roundtrip_simple_ack. Qed.
Print Assumptions C07_roundtrip_simple_ack.

Theorem C07_roundtrip_complex_ack : forall seg mor inv sq wn svc,
  inv < 256 -> sq < 256 -> wn < 256 -> svc < 256 ->
  roundtrips (complex_ack_attrs seg mor inv sq wn svc) (complex_ack_octets seg mor inv sq wn svc).
Proof. exact roundtrip_complex_ack. Qed.
Print Assumptions C07_roundtrip_complex_ack.

Theorem C07_roundtrip_segment_ack : forall nak srv inv sq wn, inv < 256 -> sq < 256 -> wn < 256 ->
  roundtrips (segment_ack_attrs nak srv inv sq wn) [64 + 2 * b2n nak + b2n srv; inv; sq; wn].
Proof. exact roundtrip_segment_ack. Qed.
Print Assumptions C07_roundtrip_segment_ack.

Theorem C07_roundtrip_error : forall inv svc, inv < 256 -> svc < 256 ->
  roundtrips (error_attrs inv svc) [80; inv; svc].
Proof. exact roundtrip_error. Qed.
Print Assumptions C07_roundtrip_error.

Theorem C07_roundtrip_reject : forall inv rsn, inv < 256 -> rsn < 256 ->
  roundtrips (reject_attrs inv rsn) [96; inv; rsn].
Proof. exact roundtrip_reject. Qed.
Print Assumptions C07_roundtrip_reject.

Theorem C07_roundtrip_abort : forall srv inv rsn, inv < 256 -> rsn < 256 ->
  roundtrips (abort_attrs srv inv rsn) [112 + b2n srv; inv; rsn].
Proof. exact roundtrip_abort. Qed.
Print Assumptions C07_roundtrip_abort.

(* ---- layout, per PDU type: APCI.encode produces the bit layout of clause 20.1 (type in the
   high nibble; SEG/MOR/SA at 08/04/02; NAK/SRV at 02/01; 0 max-segs(3) max-resp(4)) *)
Theorem C07_layout_confirmed_request : forall seg mor sa ms mr inv sq wn svc,
  ms < 8 -> mr < 16 -> inv < 256 -> sq < 256 -> wn < 256 -> svc < 256 ->
  enc_apci (confirmed_request_attrs seg mor sa ms mr inv sq wn svc)
  = Ok ([8 * b2n seg + 4 * b2n mor + 2 * b2n sa; 16 * ms + mr; inv]
        ++ (if seg then [sq; wn] else []) ++ [svc]).
Proof. exact layout_confirmed_request. Qed.
Print Assumptions C07_layout_confirmed_request.

Theorem C07_layout_unconfirmed_request : forall svc, svc < 256 ->
  enc_apci (unconfirmed_request_attrs svc) = Ok [16; svc].
Proof. exact layout_unconfirmed_request. Qed.
Print Assumptions C07_layout_unconfirmed_request.

Theorem C07_layout_simple_ack : forall inv svc, inv < 256 -> svc < 256 ->
  enc_apci (simple_ack_attrs inv svc) = Ok [32; inv; svc].
Proof. exact layout_simple_ack. Qed.
Print Assumptions C07_layout_simple_ack.

Theorem C07_layout_complex_ack : forall seg mor inv sq wn svc,
  inv < 256 -> sq < 256 -> wn < 256 -> svc < 256 ->
  enc_apci (complex_ack_attrs seg mor inv sq wn svc)
  = Ok ([48 + 8 * b2n seg + 4 * b2n mor; inv] ++ (if seg then [sq; wn] else []) ++ [svc]).
Proof. exact layout_complex_ack. Qed.
Print Assumptions C07_layout_complex_ack.

Theorem C07_layout_segment_ack : forall nak srv inv sq wn, inv < 256 -> sq < 256 -> wn < 256 ->
  enc_apci (segment_ack_attrs nak srv inv sq wn) = Ok [64 + 2 * b2n nak + b2n srv; inv; sq; wn].
Proof. exact layout_segment_ack. Qed.
Print Assumptions C07_layout_segment_ack.

Theorem C07_layout_error : forall inv svc, inv < 256 -> svc < 256 ->
  enc_apci (error_attrs inv svc) = Ok [80; inv; svc].
Proof. exact layout_error. Qed.
Print Assumptions C07_layout_error.

Theorem C07_layout_reject : forall inv rsn, inv < 256 -> rsn < 256 ->
  enc_apci (reject_attrs inv rsn) = Ok [96; inv; rsn].
Proof. exact layout_reject. Qed.
Print Assumptions C07_layout_reject.

Theorem C07_layout_abort : forall srv inv rsn, inv < 256 -> rsn < 256 ->
  enc_apci (abort_attrs srv inv rsn) = Ok [112 + b2n srv; inv; rsn].
Proof. exact layout_abort. Qed.
Print Assumptions C07_layout_abort.

(* the same two facts for all types at once, over the typed header and the independent
   transcription spec20_1 of clause 20.1 *)
Theorem C07_layout_all : forall h, wf_hdr h = true -> enc_apci (to_apci h) = Ok (spec20_1 h).
Proof. exact hdr_layout. Qed.
Print Assumptions C07_layout_all.

Theorem C07_roundtrip_all : forall h payload, wf_hdr h = true ->
  exists bs, enc_apdu (to_apci h) payload = Ok bs /\ bs = spec20_1 h ++ payload /\
             dec_apci bs = Ok (to_apci h, payload).
Proof. exact hdr_roundtrip. Qed.
Print Assumptions C07_roundtrip_all.

(* an unsegmented PDU carries no sequence number / window size, whatever the attributes hold *)
Theorem C07_unsegmented_ignores_seq_win : forall a sq wn, truthy (aSeg a) = false ->
  (aType a = Some 0%Z \/ aType a = Some 3%Z) -> enc_apci (with_seq_win a sq wn) = enc_apci a.
Proof. exact enc_ignores_seq_win. Qed.
Print Assumptions C07_unsegmented_ignores_seq_win.

(* distinct headers / payloads never share an encoding *)
Theorem C07_encoding_injective : forall h1 p1 h2 p2, wf_hdr h1 = true -> wf_hdr h2 = true ->
  spec20_1 h1 ++ p1 = spec20_1 h2 ++ p2 -> to_apci h1 = to_apci h2 /\ p1 = p2.
Proof. exact spec_injective. Qed.
Print Assumptions C07_encoding_injective.

(* a PDU type outside 0..7 (or None) is refused by the encoder *)
Theorem C07_invalid_type_refused : forall a,
  (forall k, (0 <= k <= 7)%Z -> aType a <> Some k) -> enc_apci a = Err ValueErr.
Proof. exact enc_invalid_type. Qed.
Print Assumptions C07_invalid_type_refused.

(* ---- arbitrary octet strings: a header or DecodingError, never anything else *)
Theorem C07_decode_total : forall bs,
  (exists a r, dec_apci bs = Ok (a, r)) \/ dec_apci bs = Err DecodingError.
Proof. exact decode_total. Qed.
Print Assumptions C07_decode_total.

(* what is returned as payload is the input minus a 2..6 octet header: no over-read, no loss *)
Theorem C07_no_overread : forall bs a r, dec_apci bs = Ok (a, r) ->
  exists hd, bs = hd ++ r /\ (2 <= length hd <= 6)%nat.
Proof. exact dec_shape. Qed.
Print Assumptions C07_no_overread.

(* a decoded attribute set is a well-formed header of one of the eight types *)
Theorem C07_decode_yields_header : forall bs a r, bytes_ok bs = true -> dec_apci bs = Ok (a, r) ->
  exists h, wf_hdr h = true /\ a = to_apci h.
Proof. exact dec_yields_header. Qed.
Print Assumptions C07_decode_yields_header.

Theorem C07_reencode_stable : forall bs a r, bytes_ok bs = true -> dec_apci bs = Ok (a, r) ->
  exists bs', enc_apdu a r = Ok bs' /\ dec_apci bs' = Ok (a, r).
Proof. exact reencode_stable. Qed.
Print Assumptions C07_reencode_stable.

(* ---- object histories (model Bac.ApciSession: a store of APDU objects; decode into fresh or used
   objects, in-place appends to pduData, objects used as encode targets, typed classes taking a
   decoded APDU, re-encoding).  Decoding is a function of the octets fed, not of the past. *)

(* whatever ran before on whatever objects: decoding into a not yet used object observes dec_apci bs *)
Theorem C07_decode_history_free : forall st o bs, fst (lookup st o) = apci_none ->
  snd (step st (OpDecode o bs)) = framed (canon_dec (dec_apci bs)).
Proof. exact decode_fresh_history_free. Qed.
Print Assumptions C07_decode_history_free.

(* into a used object as well: the payload stored is the input minus its 2..6 header octets *)
Theorem C07_decode_payload_from_octets : forall st o bs a r,
  dec_into (fst (lookup st o)) bs = Ok (a, r) ->
  lookup (fst (step st (OpDecode o bs))) o = (a, r) /\
  exists hd, bs = hd ++ r /\ (2 <= length hd <= 6)%nat.
Proof. exact decode_payload_from_octets. Qed.
Print Assumptions C07_decode_payload_from_octets.

(* an object with arbitrary stale attributes: decoding header + payload into it yields the payload
   fed and attributes that re-encode to exactly the octets fed *)
Theorem C07_reused_object_roundtrip : forall old h p, wf_hdr h = true ->
  dec_into old (spec20_1 h ++ p) = Ok (overlay old (to_apci h), p) /\
  enc_apdu (overlay old (to_apci h)) p = Ok (spec20_1 h ++ p).
Proof. exact reused_object_roundtrip. Qed.
Print Assumptions C07_reused_object_roundtrip.

(* no operation changes an object it does not name (in-place appends stay where they were made) *)
Theorem C07_ops_touch_only_named_objects : forall st x o', ~ In o' (touched x) ->
  lookup (fst (step st x)) o' = lookup st o'.
Proof. exact step_frame. Qed.
Print Assumptions C07_ops_touch_only_named_objects.

(* typed classes and re-used sources / targets (round 3) *)

(* X.decode(apdu) into a typed object that was used before: attributes and payload are the source's,
   whatever the object held; the source is drained *)
Theorem C07_typed_decode_replaces : forall st dst src, dst <> src ->
  lookup (fst (step st (OpTyped dst src))) dst = lookup st src /\
  lookup (fst (step st (OpTyped dst src))) src = (fst (lookup st src), []).
Proof. exact typed_decode_replaces. Qed.
Print Assumptions C07_typed_decode_replaces.

(* apdu.decode(pdu), pdu an object the application keeps: header + payload in the APDU, the PDU empty *)
Theorem C07_decode_from_drains_source : forall st o src a r, o <> src ->
  dec_into (fst (lookup st o)) (snd (lookup st src)) = Ok (a, r) ->
  lookup (fst (step st (OpDecodeFrom o src))) o = (a, r) /\
  lookup (fst (step st (OpDecodeFrom o src))) src = (fst (lookup st src), []).
Proof. exact decode_from_drains. Qed.
Print Assumptions C07_decode_from_drains_source.

(* relay: decode a frame out of a PDU, encode the APDU back into the same PDU — exactly the frame again *)
Theorem C07_relay_roundtrip : forall st o src h p, o <> src -> wf_hdr h = true ->
  snd (lookup st src) = spec20_1 h ++ p ->
  let st1 := fst (step st (OpDecodeFrom o src)) in
  let st2 := fst (step st1 (OpEncodeTo o src)) in
  lookup st1 o = (overlay (fst (lookup st o)) (to_apci h), p) /\
  snd (lookup st1 src) = [] /\
  snd (lookup st2 src) = spec20_1 h ++ p /\
  lookup st2 o = lookup st1 o.
Proof. exact relay_roundtrip. Qed.
Print Assumptions C07_relay_roundtrip.

(* ---- the SOURCE, translated: BacGen.ApciFns is regenerated from py34/bacpypes/apdu.py by
   translator/gen_apci.py on every run (APCI.update / encode / decode, APDU.encode / decode,
   _APDU.encode / decode, statement by statement).  An object is (attributes, pduData); a translated
   method takes self and its other parameter and returns both.  The translated text equals the hand
   model for ALL inputs, so every theorem above is a theorem about what the source says now. *)
Open Scope Z_scope.

Theorem C07_translated_pdu_types_is_model : pdu_type_constants = [0; 1; 2; 3; 4; 5; 6; 7].
Proof. exact pdu_type_constants_std. Qed.
Print Assumptions C07_translated_pdu_types_is_model.

Theorem C07_translated_update_is_model : forall a sd b bd,
  py_APCI_update a sd b bd = Ok ((b, sd), (b, bd)).
Proof. exact py_APCI_update_eq. Qed.
Print Assumptions C07_translated_update_is_model.

Theorem C07_translated_apci_encode_is_model : forall a sd pa pd,
  py_APCI_encode a sd pa pd = do h <- enc_apci a; Ok ((a, sd), (pa, pd ++ h)).
Proof. exact py_APCI_encode_eq. Qed.
Print Assumptions C07_translated_apci_encode_is_model.

Theorem C07_translated_apci_decode_is_model : forall old sd pa bs,
  py_APCI_decode old sd pa bs
  = do (a, r) <- dec_apci bs; Ok ((overlay old a, if data_taken a then r else sd), (pa, r)).
Proof. exact py_APCI_decode_eq. Qed.
Print Assumptions C07_translated_apci_decode_is_model.

Theorem C07_translated_apdu_encode_is_model : forall a sd pa pd,
  py_APDU_encode a sd pa pd = do bs <- enc_apdu a sd; Ok ((a, sd), (pa, pd ++ bs)).
Proof. exact py_APDU_encode_eq. Qed.
Print Assumptions C07_translated_apdu_encode_is_model.

Theorem C07_translated_apdu_decode_is_model : forall old sd pa bs,
  py_APDU_decode old sd pa bs = do (a, r) <- dec_into old bs; Ok ((a, r), (pa, [])).
Proof. exact py_APDU_decode_eq. Qed.
Print Assumptions C07_translated_apdu_decode_is_model.

Theorem C07_translated_typed_encode_is_model : forall a sd pa pd,
  py__APDU_encode a sd pa pd = Ok ((a, sd), (a, pd ++ sd)).
Proof. exact py__APDU_encode_eq. Qed.
Print Assumptions C07_translated_typed_encode_is_model.

(* the decode of the eight typed classes: the payload the object held (sd) is gone, for every sd *)
Theorem C07_translated_typed_decode_is_model : forall old sd a pd,
  py__APDU_decode old sd a pd = Ok ((a, pd), (a, [])).
Proof. exact py__APDU_decode_eq. Qed.
Print Assumptions C07_translated_typed_decode_is_model.

(* the main statements directly on the translated functions.
   Layout and round trip, for every well-formed header and EVERY payload (no bound on its length):
   no size is refused, the payload is untouched *)
Theorem C07_translated_roundtrip_every_payload_length : forall h payload pa, wf_hdr h = true ->
  py_APDU_encode (to_apci h) payload pa [] = Ok ((to_apci h, payload), (pa, spec20_1 h ++ payload)) /\
  py_APDU_decode apci_none [] pa (spec20_1 h ++ payload) = Ok ((to_apci h, payload), (pa, [])).
Proof. exact gen_roundtrip. Qed.
Print Assumptions C07_translated_roundtrip_every_payload_length.

Theorem C07_translated_layout : forall h sd pa pd, wf_hdr h = true ->
  py_APCI_encode (to_apci h) sd pa pd = Ok ((to_apci h, sd), (pa, pd ++ spec20_1 h)).
Proof. exact gen_layout. Qed.
Print Assumptions C07_translated_layout.

(* arbitrary octets of any length into any object: a header, or DecodingError — nothing else *)
Theorem C07_translated_decode_total : forall old sd pa bs,
  (exists a r, py_APDU_decode old sd pa bs = Ok ((a, r), (pa, []))) \/
  py_APDU_decode old sd pa bs = Err DecodingError.
Proof. exact gen_decode_total. Qed.
Print Assumptions C07_translated_decode_total.

Theorem C07_translated_invalid_type_refused : forall a sd pa pd,
  (forall k, 0 <= k <= 7 -> aType a <> Some k) -> py_APDU_encode a sd pa pd = Err ValueErr.
Proof. exact gen_invalid_type. Qed.
Print Assumptions C07_translated_invalid_type_refused.

(* decode into a USED object of the generic class, and the whole path through a USED typed object *)
Theorem C07_translated_reused_object_roundtrip : forall old sd pa h p, wf_hdr h = true ->
  py_APDU_decode old sd pa (spec20_1 h ++ p) = Ok ((overlay old (to_apci h), p), (pa, [])) /\
  py_APDU_encode (overlay old (to_apci h)) p pa [] = Ok ((overlay old (to_apci h), p), (pa, spec20_1 h ++ p)).
Proof. exact gen_reused_object. Qed.
Print Assumptions C07_translated_reused_object_roundtrip.

Theorem C07_translated_typed_roundtrip : forall old sd told tsd pa h p, wf_hdr h = true ->
  exists a, a = overlay old (to_apci h) /\
  py_APDU_decode old sd pa (spec20_1 h ++ p) = Ok ((a, p), (pa, [])) /\
  py__APDU_decode told tsd a p = Ok ((a, p), (a, [])) /\
  py__APDU_encode a p apci_none [] = Ok ((a, p), (a, p)) /\
  py_APDU_encode a p pa [] = Ok ((a, p), (pa, spec20_1 h ++ p)).
Proof. exact gen_typed_roundtrip. Qed.
Print Assumptions C07_translated_typed_roundtrip.

(* the steps of the object-history model are the translated methods applied to the stored objects *)
Theorem C07_translated_step_decode_from : forall st o src so ss, o <> src ->
  py_APDU_decode (fst (lookup st o)) (snd (lookup st o)) (fst (lookup st src)) (snd (lookup st src)) = Ok (so, ss) ->
  lookup (fst (step st (OpDecodeFrom o src))) o = so /\
  lookup (fst (step st (OpDecodeFrom o src))) src = ss.
Proof. exact step_decode_from_is_translated. Qed.
Print Assumptions C07_translated_step_decode_from.

Theorem C07_translated_step_typed : forall st dst src so ss, dst <> src ->
  py__APDU_decode (fst (lookup st dst)) (snd (lookup st dst)) (fst (lookup st src)) (snd (lookup st src)) = Ok (so, ss) ->
  lookup (fst (step st (OpTyped dst src))) dst = so /\
  lookup (fst (step st (OpTyped dst src))) src = ss.
Proof. exact step_typed_is_translated. Qed.
Print Assumptions C07_translated_step_typed.

Theorem C07_translated_step_encode_to : forall st o dst so sd', o <> dst ->
  py_APDU_encode (fst (lookup st o)) (snd (lookup st o)) (fst (lookup st dst)) (snd (lookup st dst)) = Ok (so, sd') ->
  lookup (fst (step st (OpEncodeTo o dst))) o = so /\
  lookup (fst (step st (OpEncodeTo o dst))) dst = sd'.
Proof. exact step_encode_to_is_translated. Qed.
Print Assumptions C07_translated_step_encode_to.
Open Scope N_scope.

(* ---- the two code tables (generated text of BacGen.ApduFns), for every integer *)
Open Scope Z_scope.

Theorem C07_maxsegs_round_down : forall n, 2 <= n ->
  exists c, encode_max_segments_accepted n = Ok c /\
    (n <= 64 -> 1 <= c <= 6 /\
       exists lo, decode_max_segments_accepted c = Ok (Some lo) /\ lo <= n < 2 * lo /\
         (c < 6 -> decode_max_segments_accepted (c + 1) = Ok (Some (2 * lo)))) /\
    (64 < n -> c = 7).
Proof. exact maxsegs_round_down. Qed.
Print Assumptions C07_maxsegs_round_down.

Theorem C07_maxapdu_round_down : forall n, 50 <= n ->
  exists c lo, encode_max_apdu_length_accepted n = Ok c /\ 0 <= c <= 5 /\
    decode_max_apdu_length_accepted c = Ok (Some lo) /\ lo <= n /\
    (c < 5 -> exists hi, decode_max_apdu_length_accepted (c + 1) = Ok (Some hi) /\ n < hi).
Proof. exact maxapdu_round_down. Qed.
Print Assumptions C07_maxapdu_round_down.

(* never up: what the chosen code stands for is the greatest table entry not above n *)
Theorem C07_maxsegs_never_up : forall n c lo c' v,
  encode_max_segments_accepted n = Ok c -> decode_max_segments_accepted c = Ok (Some lo) ->
  decode_max_segments_accepted c' = Ok (Some v) -> v <= n -> lo <= n /\ v <= lo.
Proof. exact maxsegs_greatest. Qed.
Print Assumptions C07_maxsegs_never_up.

Theorem C07_maxapdu_never_up : forall n c lo c' v,
  encode_max_apdu_length_accepted n = Ok c -> decode_max_apdu_length_accepted c = Ok (Some lo) ->
  decode_max_apdu_length_accepted c' = Ok (Some v) -> v <= n -> lo <= n /\ v <= lo.
Proof. exact maxapdu_greatest. Qed.
Print Assumptions C07_maxapdu_never_up.

Theorem C07_tables_inverse :
  (forall c, 1 <= c <= 6 -> exists v, decode_max_segments_accepted c = Ok (Some v) /\
                                      encode_max_segments_accepted v = Ok c) /\
  (forall c, 0 <= c <= 5 -> exists v, decode_max_apdu_length_accepted c = Ok (Some v) /\
                                      encode_max_apdu_length_accepted v = Ok c).
Proof. exact tables_inverse. Qed.
Print Assumptions C07_tables_inverse.

(* the standard's tables: code c in 1..6 = 2^c segments, 0 and 7 carry no number;
   50/128/206/480/1024/1476 octets, codes 6..15 reserved and refused *)
Theorem C07_maxsegs_table :
  (forall c, 1 <= c <= 6 -> decode_max_segments_accepted c = Ok (Some (2 ^ c))) /\
  decode_max_segments_accepted 0 = Ok None /\ decode_max_segments_accepted 7 = Ok None.
Proof. exact maxsegs_decode_table. Qed.
Print Assumptions C07_maxsegs_table.

Theorem C07_maxapdu_table :
  decode_max_apdu_length_accepted 0 = Ok (Some 50) /\ decode_max_apdu_length_accepted 1 = Ok (Some 128) /\
  decode_max_apdu_length_accepted 2 = Ok (Some 206) /\ decode_max_apdu_length_accepted 3 = Ok (Some 480) /\
  decode_max_apdu_length_accepted 4 = Ok (Some 1024) /\ decode_max_apdu_length_accepted 5 = Ok (Some 1476).
Proof. exact maxapdu_decode_table. Qed.
Print Assumptions C07_maxapdu_table.

Theorem C07_maxapdu_reserved_refused : forall c, 6 <= c <= 15 ->
  decode_max_apdu_length_accepted c = Err ValueErr.
Proof. exact maxapdu_decode_reserved. Qed.
Print Assumptions C07_maxapdu_reserved_refused.

(* refusal below the minimum: nothing to round down to *)
Theorem C07_maxsegs_refuse_below : forall n, n < 0 \/ n = 1 ->
  encode_max_segments_accepted n = Err ValueErr.
Proof. exact maxsegs_refuse_below. Qed.
Print Assumptions C07_maxsegs_refuse_below.

Theorem C07_maxapdu_refuse_below : forall n, n < 50 ->
  encode_max_apdu_length_accepted n = Err ValueErr.
Proof. exact maxapdu_refuse_below. Qed.
Print Assumptions C07_maxapdu_refuse_below.

(* ---- non-vacuity: the hypotheses are met by concrete headers, and the model computes the
   octets the implementation produces (0a 35 c8 01 02 0c + payload for the first one) *)
Open Scope N_scope.
Example C07_wf_examples :
  forallb wf_hdr [ConfirmedRequest true false true 3 5 200 1 2 12; UnconfirmedRequest 8;
                  SimpleAck 255 15; ComplexAck true true 0 255 127 12; SegmentAck true false 1 2 3;
                  ErrorHdr 7 12; Reject 9 4; Abort true 128 65] = true.
Proof. vm_compute. reflexivity. Qed.
Example C07_confirmed_request_octets :
  enc_apdu (confirmed_request_attrs true false true 3 5 200 1 2 12) [120; 121; 122]
  = Ok [10; 53; 200; 1; 2; 12; 120; 121; 122]
  /\ dec_apci [10; 53; 200; 1; 2; 12; 120; 121; 122]
     = Ok (confirmed_request_attrs true false true 3 5 200 1 2 12, [120; 121; 122]).
Proof. split; vm_compute; reflexivity. Qed.
Example C07_decode_examples :
  dec_apci [] = Err DecodingError /\ dec_apci [128] = Err DecodingError /\
  dec_apci [32; 1] = Err DecodingError /\
  dec_apci [32; 1; 2; 3] = Ok (simple_ack_attrs 1 2, [3]).
Proof. repeat split; vm_compute; reflexivity. Qed.
Example C07_history_example :       (* reject decoded, scribbled on, another reject decoded: clean *)
  canon_session [OpDecode 0 [96; 7; 4]%N; OpPut 0 [222; 173]%N; OpDecode 1 [96; 7; 4]%N; OpReencode 1; OpReencode 0]
  = (framed (canon_dec (dec_apci [96; 7; 4]%N)) ++ framed (canon_dec (dec_apci [96; 7; 4]%N))
     ++ framed [0; 96; 7; 4] ++ framed [0; 96; 7; 4; 222; 173])%Z.
Proof. vm_compute. reflexivity. Qed.
Example C07_translated_examples :     (* the translated methods compute: header + payload into an empty PDU and back *)
  py_APDU_encode (confirmed_request_attrs true false true 3 5 200 1 2 12) [120; 121; 122] apci_none []
  = Ok ((confirmed_request_attrs true false true 3 5 200 1 2 12, [120; 121; 122]),
        (apci_none, [10; 53; 200; 1; 2; 12; 120; 121; 122]))
  /\ py_APDU_decode apci_none [9] apci_none [10; 53; 200; 1; 2; 12; 120; 121; 122]
     = Ok ((confirmed_request_attrs true false true 3 5 200 1 2 12, [120; 121; 122]), (apci_none, []))
  /\ py__APDU_decode (reject_attrs 1 2) [7; 7; 7] (simple_ack_attrs 1 2) [3]
     = Ok ((simple_ack_attrs 1 2, [3]), (simple_ack_attrs 1 2, []))
  /\ py_APDU_decode apci_none [] apci_none [128] = Err DecodingError.
Proof. repeat split; vm_compute; reflexivity. Qed.
Example C07_largest_apdu_example :    (* 1476 and 5000 octets: nothing refused, payload untouched *)
  canon_enc_big 1474 3 (enc_apdu (unconfirmed_request_attrs 8) (pat 1474 3)) = [0; 16; 8; 1476; 1]%Z
  /\ canon_dec_big 5000 9 (dec_apci ([80; 1; 2] ++ pat 5000 9))
     = (0 :: canon_apci (error_attrs 1 2) ++ [5000; 1])%Z.
Proof. split; vm_compute; reflexivity. Qed.
Example C07_relay_example :           (* decode out of PDU 1, encode back into PDU 1: the frame again *)
  canon_session [OpNew 1; OpPut 1 [96; 7; 4; 33]%N; OpDecodeFrom 0 1; OpPeek 1; OpEncodeTo 0 1; OpPeek 1]
  = (framed (canon_dec (dec_apci [96; 7; 4; 33]%N)) ++ framed [] ++ framed [0] ++ framed [96; 7; 4; 33])%Z.
Proof. vm_compute. reflexivity. Qed.
Example C07_table_examples :
  (encode_max_segments_accepted 3 = Ok 1 /\ encode_max_segments_accepted 65 = Ok 7 /\
   encode_max_apdu_length_accepted 1475 = Ok 4 /\ encode_max_apdu_length_accepted 49 = Err ValueErr)%Z.
Proof. repeat split; vm_compute; reflexivity. Qed.
