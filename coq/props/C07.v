(* C07 — APDU fixed headers (provisional; completed in step 3) *)
From Bac Require Import Base PyRt Apci ApciHdr ApciFacts.
From BacGen Require Import ApduFns.
Open Scope N_scope.

Theorem C07_decode_total : forall bs,
  (exists a r, dec_apci bs = Ok (a, r)) \/ dec_apci bs = Err DecodingError.
Proof. exact decode_total. Qed.
Print Assumptions C07_decode_total.
