(* C17 — a commandable value equals its highest-priority command or the default.
   Property theorems only; the model is Bac.Prio, the proofs live in Bac.PrioFacts.
   The model is of the tree with the two `fix:` commits named in docs/C17.md. *)
From Bac Require Import Base Prio PrioFacts PrioHold.
Open Scope Z_scope.

(* After ANY list of operations (commands at any priority, valid or not, with or without
   priority; clock advances) the present value is the winner of the priority array — as soon as
   it was so before, or as soon as one command with a priority in 1..16 has been accepted,
   whatever the initial present value was. *)
Theorem C17_pv_is_winner :
  (forall o es, consistent o -> consistent (run o es)) /\
  (forall o p v es, 1 <= prio_index p <= 16 -> consistent (run o (Cmd p v :: es))).
Proof. split; [intros; apply run_consistent; assumption | exact run_consistent_after_command]. Qed.
Print Assumptions C17_pv_is_winner.

(* ... and "winner" means: the value in the lowest-numbered non-null slot, or the relinquish
   default when every slot is null. *)
Theorem C17_winner_is_lowest_nonnull : forall sl d,
  (exists k, nth_error sl k = Some (Some (winner sl d)) /\ forall j, (j < k)%nat -> nth_error sl j = Some None)
  \/ (winner sl d = d /\ forall j, (j < length sl)%nat -> nth_error sl j = Some None).
Proof. exact winner_spec. Qed.
Print Assumptions C17_winner_is_lowest_nonnull.

(* Every slot holds exactly the last value commanded at that priority (a relinquish commands
   null; a write without priority counts for 16; refused commands count for nothing).  Slot 6 is
   included whenever no minimum on/off hold is at work (`quiet`), and excluded otherwise — it
   then belongs to the hold mechanism, see C17_min_on_off. *)
Theorem C17_slot_last_commanded : forall es o j,
  length (slots o) = 16%nat -> (j < 16)%nat -> (j <> 5%nat \/ quiet o) ->
  nth_error (slots (run o es)) j = Some (last_cmd (Z.of_nat j + 1) es (nth j (slots o) None)).
Proof. exact slot_last_commanded. Qed.
Print Assumptions C17_slot_last_commanded.

(* A priority outside 1..16 (slot 0 included) is refused and nothing changes. *)
Theorem C17_refused_unchanged : forall o p v,
  ~ (1 <= prio_index p <= 16) ->
  command o p v = (o, if prio_index p =? 0 then WDenied else WBadIndex).
Proof. exact refused_unchanged. Qed.
Print Assumptions C17_refused_unchanged.

Theorem C17_no_priority_is_16 : forall o v, command o None v = command o (Some 16) v.
Proof. exact no_priority_is_16. Qed.
Print Assumptions C17_no_priority_is_16.

(* Minimum on/off time, as stated (the swapped times of the pinned tree are repaired by a fix:
   commit): a command that moves the present value to `active` (`inactive`) while minimumOnTime
   (minimumOffTime) is non-zero writes that state into slot 6 and schedules its release exactly
   that many seconds later. *)
Theorem C17_min_on_off : forall o p v o' r,
  monitored o = true -> length (slots o) = 16%nat ->
  command o p v = (o', r) -> pv o' <> pv o ->
  (pv o' = ACTIVE -> min_on o > 0 ->
     r = WOk /\ slot6 o' = Some (Some ACTIVE) /\ timer o' = Some (now o + min_on o)) /\
  (pv o' = INACTIVE -> min_off o > 0 ->
     r = WOk /\ slot6 o' = Some (Some INACTIVE) /\ timer o' = Some (now o + min_off o)).
Proof. exact min_on_off_hold. Qed.
Print Assumptions C17_min_on_off.

(* Until the deadline only the clock moves (the slot stays held) ... *)
Theorem C17_min_on_off_keep : forall o d dt,
  timer o = Some d -> now o + dt < d -> tick o dt = (with_now o (now o + dt), WOk).
Proof. exact min_on_off_keep. Qed.
Print Assumptions C17_min_on_off_keep.

(* ... and at the deadline slot 6 is released: the present value becomes the winner of the array
   without slot 6, and if that is the value it already had, releasing is all that happens. *)
Theorem C17_min_on_off_release : forall o d dt o' r,
  timer o = Some d -> d <= now o + dt -> length (slots o) = 16%nat ->
  tick o dt = (o', r) ->
  let rel := set_nth 5 None (slots o) in
  pv o' = winner rel (dflt o) /\
  (pv o' = pv o -> slots o' = rel /\ timer o' = None /\ r = WOk).
Proof. exact min_on_off_release. Qed.
Print Assumptions C17_min_on_off_release.

(* The hold, over whole histories.  `hold_after o g es` (Prio.v) is the hold as the statement
   describes it, computed only from the present value before/after each operation and the clock:
   a change of the present value to active (inactive) with minimumOnTime (minimumOffTime) T > 0 at
   instant t starts a hold of that state until exactly t + T, replacing a hold still running;
   nothing else touches a running hold — not a command at any other priority, not a relinquish,
   not a change to a state whose minimum time is 0 —; it is gone once the clock has reached its
   deadline.  After ANY history that leaves priority 6 to the mechanism (commands at every other
   priority, valid or refused, relinquishes, clock advances of any size), slot 6 holds exactly the
   state of that hold (null when there is none), the release is scheduled exactly at its deadline
   (nothing is scheduled when there is none), and the deadline is still ahead. *)
Theorem C17_hold_exact : forall es o g,
  monitored o = true -> length (slots o) = 16%nat -> 0 <= min_on o -> 0 <= min_off o ->
  no_user6 es = true -> hold_inv o g ->
  hold_inv (run o es) (hold_after o g es).
Proof. exact hold_exact. Qed.
Print Assumptions C17_hold_exact.

(* what hold_inv says, and that every constructed object starts without a hold; with
   C17_pv_is_winner: at every instant the present value is the winner of the commanded slots alone
   unless a hold is running, and then slot 6 is that hold's state *)
Theorem C17_hold_meaning :
  (forall o, hold_inv o None -> slot6 o = Some None /\ timer o = None) /\
  (forall o v u, hold_inv o (Some (v, u)) -> slot6 o = Some (Some v) /\ timer o = Some u /\ now o < u) /\
  (forall d p m on off nw, hold_inv (mkObj no_slots d p m on off None nw) None).
Proof. exact (conj hold_none (conj hold_some hold_inv_fresh)). Qed.
Print Assumptions C17_hold_meaning.

(* one step of the hold: it starts exactly at a change to a state with a minimum time > 0 and
   lasts exactly that time; otherwise it is what it was, until the clock reaches its deadline *)
Theorem C17_hold_step : forall on off g p w nw,
  (w <> p -> 0 < min_time on off w -> hold_step on off g p w nw = Some (w, nw + min_time on off w)) /\
  (min_time on off w = 0 -> hold_step on off g p w nw = expire g nw) /\
  (live g nw -> hold_step on off g p p nw = g) /\
  (forall v u, u <= nw -> expire (Some (v, u)) nw = None) /\ (live g nw -> expire g nw = g).
Proof. exact hold_step_spec. Qed.
Print Assumptions C17_hold_step.

(* The recursion bound of the model (the monitor re-enters WriteProperty once) is never hit. *)
Theorem C17_fuel_enough : forall o e, snd (step o e) <> WExc OutOfFuel.
Proof. exact step_fuel_enough. Qed.
Print Assumptions C17_fuel_enough.

(* ---- non-vacuity ---- *)
Definition av0 : obj := mkObj no_slots 0 0 false 0 0 None 0.          (* a fresh analog value *)
Definition bv0 : obj := mkObj no_slots 0 0 true 5 9 None 0.           (* binary value, on 5 s, off 9 s *)

Example C17_fresh_objects_meet_hypotheses :
  consistent av0 /\ length (slots av0) = 16%nat /\ quiet av0 /\
  consistent bv0 /\ length (slots bv0) = 16%nat /\ monitored bv0 = true.
Proof. unfold consistent, quiet. cbn. repeat split; auto. Qed.

(* priority 8 then 3, relinquish 3, relinquish 8: 2, 3, 2, default *)
Example C17_scenario_plain :
  map (fun es => pv (run av0 es))
      [[Cmd (Some 8) (Some 2)]; [Cmd (Some 8) (Some 2); Cmd (Some 3) (Some 3)];
       [Cmd (Some 8) (Some 2); Cmd (Some 3) (Some 3); Cmd (Some 3) None];
       [Cmd (Some 8) (Some 2); Cmd (Some 3) (Some 3); Cmd (Some 3) None; Cmd (Some 8) None]]
  = [2; 3; 2; 0].
Proof. vm_compute. reflexivity. Qed.

(* active at priority 8 at t=0 is held in slot 6 until t=5 (on time), not 9 *)
Example C17_scenario_min_on :
  let o1 := run bv0 [Cmd (Some 8) (Some ACTIVE)] in
  let o2 := run o1 [Tick 4] in
  let o3 := run o2 [Tick 1] in
  (slot6 o1, timer o1, slot6 o2, slot6 o3, timer o3, pv o3)
  = (Some (Some ACTIVE), Some 5, Some (Some ACTIVE), Some None, None, ACTIVE).
Proof. vm_compute. reflexivity. Qed.

(* the hypotheses of C17_min_on_off are met by that command *)
Example C17_min_on_off_applies :
  exists o' r, command bv0 (Some 8) (Some ACTIVE) = (o', r) /\ pv o' <> pv bv0 /\ pv o' = ACTIVE /\ min_on bv0 > 0.
Proof. eexists. eexists. split; [vm_compute; reflexivity|]. cbn. repeat split; try lia. Qed.

Example C17_refused_example :
  command av0 (Some 0) (Some 1) = (av0, WDenied) /\ command av0 (Some 17) (Some 1) = (av0, WBadIndex)
  /\ command av0 (Some (-1)) None = (av0, WBadIndex).
Proof. vm_compute. repeat split. Qed.

(* a hold that is overridden: on 5 s, no minimum off time.  active at priority 8 at t=0 (hold
   until 5), inactive at priority 3 at t=2 (no minimum time: the running hold stays), priority 8
   relinquished at t=3; at t=5 slot 6 is released although the state changed in between *)
Definition bv50 : obj := mkObj no_slots 0 0 true 5 0 None 0.
Definition overridden : list op :=
  [Cmd (Some 8) (Some ACTIVE); Tick 2; Cmd (Some 3) (Some INACTIVE); Tick 1; Cmd (Some 8) None; Tick 1].
Example C17_hold_overridden :
  no_user6 (overridden ++ [Tick 1]) = true /\ hold_inv bv50 None /\
  hold_after bv50 None overridden = Some (ACTIVE, 5) /\
  (let o := run bv50 overridden in (pv o, slot6 o, timer o, now o)) = (INACTIVE, Some (Some ACTIVE), Some 5, 4) /\
  hold_after bv50 None (overridden ++ [Tick 1]) = None /\
  (let o := run bv50 (overridden ++ [Tick 1]) in (pv o, slot6 o, timer o, now o)) = (INACTIVE, Some None, None, 5).
Proof. unfold hold_inv, slot6. vm_compute. repeat split; auto. Qed.

(* both times non-zero (on 2, off 3): a flip during the hold starts the new state's own hold *)
Example C17_hold_restarted :
  let o0 := mkObj no_slots 0 0 true 2 3 None 0 in
  let es := [Cmd (Some 8) (Some ACTIVE); Tick 1; Cmd (Some 3) (Some INACTIVE)] in
  hold_after o0 None es = Some (INACTIVE, 4) /\ timer (run o0 es) = Some 4 /\
  slot6 (run o0 (es ++ [Tick 2])) = Some (Some INACTIVE) /\ slot6 (run o0 (es ++ [Tick 3])) = Some None.
Proof. vm_compute. repeat split. Qed.
