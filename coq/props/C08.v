From Bac Require Import Base Npci.
