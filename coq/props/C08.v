(* C08 — Network-layer headers and messages encode and decode faithfully.
   Property theorems only; proofs live in Bac.NpciFacts / Bac.NpciMsgFacts, the model in Bac.Npci. *)
From Bac Require Import Base Npci NpciFacts NpciMsgFacts NpciSound NpciBodyFacts NpciRegistry NpciReenc.
From Bac Require Import NpciRt NpciGenFacts NpciGenEnc NpciGenDec NpciGen.
From BacGen Require Import NpduRegistry NpciFns.
Open Scope N_scope.

(* every well-formed header (version 1, priority < 4, nets < 65535, MACs of 1..255 octets, hop count
   present iff DADR present, vendor id present iff message type >= 0x80) followed by any payload
   decodes back to the same fields, the same control octet and the same payload *)
Theorem C08_roundtrip : forall h payload, wf_npci h = true ->
  exists bs, enc_npci h = Ok bs /\ dec_npci (bs ++ payload) = Ok (control_of h, h, payload).
Proof. exact npci_roundtrip. Qed.
Print Assumptions C08_roundtrip.

(* the octets are exactly the clause 6.2 layout (spec6_2 is written from the standard, not from the code) *)
Theorem C08_layout : forall h, wf_npci h = true -> enc_npci h = Ok (spec6_2 h).
Proof. exact enc_npci_spec. Qed.
Print Assumptions C08_layout.

(* ... and they are octets *)
Theorem C08_layout_octets : forall h bs, wf_npci h = true -> enc_npci h = Ok bs -> bytes_ok bs = true.
Proof. exact enc_npci_bytes_ok. Qed.
Print Assumptions C08_layout_octets.

(* any buffer that does not start with version octet 1 (including the empty one) is refused *)
Theorem C08_refuses_version : forall bs, (forall r, bs <> 1 :: r) -> dec_npci bs = Err DecodingError.
Proof. exact dec_npci_version. Qed.
Print Assumptions C08_refuses_version.

(* a header whose source is a broadcast (SNET = 0xFFFF) or has no octets (SLEN = 0): the encoder lays it
   out per clause 6.2 and the decoder refuses it, whatever else the header and the payload contain *)
Theorem C08_refuses_bad_sadr : forall h net mac payload,
  wf_npci (with_sadr h None) = true -> net < 65536 -> lenN mac < 256 -> (net = 65535 \/ mac = []) ->
  exists bs, enc_npci (with_sadr h (Some (RStation net mac))) = Ok bs
    /\ bs = spec6_2 (with_sadr h (Some (RStation net mac)))
    /\ dec_npci (bs ++ payload) = Err DecodingError.
Proof. exact npci_bad_sadr. Qed.
Print Assumptions C08_refuses_bad_sadr.

(* whatever octets are decoded successfully, the source is absent or a station with SNET <> 0xFFFF and
   a non-empty MAC: a broadcast or zero-length source is never returned *)
Theorem C08_source_never_broadcast : forall bs c h r, dec_npci bs = Ok (c, h, r) -> src_ok (sadr h).
Proof. exact dec_npci_src_ok. Qed.
Print Assumptions C08_source_never_broadcast.

(* every strict prefix of an encoded header is refused with DecodingError *)
Theorem C08_refuses_truncated : forall h bs k, wf_npci h = true -> enc_npci h = Ok bs ->
  (k < length bs)%nat -> dec_npci (firstn k bs) = Err DecodingError.
Proof. exact npci_truncated_enc. Qed.
Print Assumptions C08_refuses_truncated.

(* the decoder has no other way to fail: on arbitrary octets the only error is DecodingError *)
Theorem C08_decode_error_class : forall bs e, dec_npci bs = Err e -> e = DecodingError.
Proof. exact dec_npci_only. Qed.
Print Assumptions C08_decode_error_class.

(* no misreading: whatever octets the decoder accepts (reserved control bits 6 and 4 clear, and DLEN = 0
   when DNET = 0xFFFF — the two places where clause 6.2 leaves non-canonical input possible) are exactly
   the clause 6.2 layout of the fields it returns followed by the payload it returns, and those fields
   are well-formed; so decoding is the inverse of the layout, not merely a left inverse of the encoder *)
Theorem C08_decode_sound : forall bs c h r,
  bytes_ok bs = true -> dec_npci bs = Ok (c, h, r) ->
  N.land c 0x50 = 0 -> (dadr h = Some GBroadcast -> nth 4 bs 0 = 0) ->
  wf_npci h = true /\ spec_control h = c /\ bs = spec6_2 h ++ r.
Proof. exact dec_npci_sound. Qed.
Print Assumptions C08_decode_sound.

(* ---- the twelve messages: parameters round-trip (networks < 65536, octets < 256, lists of any
   length, tables of < 256 entries with port-info of < 256 octets) *)
Theorem C08_msg_roundtrip_who_is_router : forall net, wf_msg (WhoIsRouter net) = true ->
  exists bs, enc_msg (WhoIsRouter net) = Ok bs /\ dec_msg 0x00 bs = Ok (WhoIsRouter net, []).
Proof. exact (fun net => msg_roundtrip (WhoIsRouter net)). Qed.
Print Assumptions C08_msg_roundtrip_who_is_router.

Theorem C08_msg_roundtrip_i_am_router : forall nets, wf_nets nets = true ->
  exists bs, enc_msg (IAmRouter nets) = Ok bs /\ dec_msg 0x01 bs = Ok (IAmRouter nets, []).
Proof. exact (fun nets => msg_roundtrip (IAmRouter nets)). Qed.
Print Assumptions C08_msg_roundtrip_i_am_router.

Theorem C08_msg_roundtrip_i_could_be_router : forall net perf, (net <? 65536) && (perf <? 256) = true ->
  exists bs, enc_msg (ICouldBeRouter net perf) = Ok bs /\ dec_msg 0x02 bs = Ok (ICouldBeRouter net perf, []).
Proof. exact (fun net perf => msg_roundtrip (ICouldBeRouter net perf)). Qed.
Print Assumptions C08_msg_roundtrip_i_could_be_router.

Theorem C08_msg_roundtrip_reject_message : forall reason dnet, (reason <? 256) && (dnet <? 65536) = true ->
  exists bs, enc_msg (RejectMessage reason dnet) = Ok bs /\ dec_msg 0x03 bs = Ok (RejectMessage reason dnet, []).
Proof. exact (fun reason dnet => msg_roundtrip (RejectMessage reason dnet)). Qed.
Print Assumptions C08_msg_roundtrip_reject_message.

Theorem C08_msg_roundtrip_router_busy : forall nets, wf_nets nets = true ->
  exists bs, enc_msg (RouterBusy nets) = Ok bs /\ dec_msg 0x04 bs = Ok (RouterBusy nets, []).
Proof. exact (fun nets => msg_roundtrip (RouterBusy nets)). Qed.
Print Assumptions C08_msg_roundtrip_router_busy.

Theorem C08_msg_roundtrip_router_available : forall nets, wf_nets nets = true ->
  exists bs, enc_msg (RouterAvailable nets) = Ok bs /\ dec_msg 0x05 bs = Ok (RouterAvailable nets, []).
Proof. exact (fun nets => msg_roundtrip (RouterAvailable nets)). Qed.
Print Assumptions C08_msg_roundtrip_router_available.

Theorem C08_msg_roundtrip_initialize_routing_table : forall tbl, wf_table tbl = true ->
  exists bs, enc_msg (InitRT tbl) = Ok bs /\ dec_msg 0x06 bs = Ok (InitRT tbl, []).
Proof. exact (fun tbl => msg_roundtrip (InitRT tbl)). Qed.
Print Assumptions C08_msg_roundtrip_initialize_routing_table.

Theorem C08_msg_roundtrip_initialize_routing_table_ack : forall tbl, wf_table tbl = true ->
  exists bs, enc_msg (InitRTAck tbl) = Ok bs /\ dec_msg 0x07 bs = Ok (InitRTAck tbl, []).
Proof. exact (fun tbl => msg_roundtrip (InitRTAck tbl)). Qed.
Print Assumptions C08_msg_roundtrip_initialize_routing_table_ack.

Theorem C08_msg_roundtrip_establish_connection : forall dnet term, (dnet <? 65536) && (term <? 256) = true ->
  exists bs, enc_msg (EstablishConn dnet term) = Ok bs /\ dec_msg 0x08 bs = Ok (EstablishConn dnet term, []).
Proof. exact (fun dnet term => msg_roundtrip (EstablishConn dnet term)). Qed.
Print Assumptions C08_msg_roundtrip_establish_connection.

Theorem C08_msg_roundtrip_disconnect_connection : forall dnet, (dnet <? 65536) = true ->
  exists bs, enc_msg (DisconnectConn dnet) = Ok bs /\ dec_msg 0x09 bs = Ok (DisconnectConn dnet, []).
Proof. exact (fun dnet => msg_roundtrip (DisconnectConn dnet)). Qed.
Print Assumptions C08_msg_roundtrip_disconnect_connection.

Theorem C08_msg_roundtrip_what_is_network_number :
  exists bs, enc_msg WhatIsNetNum = Ok bs /\ dec_msg 0x12 bs = Ok (WhatIsNetNum, []).
Proof. exact (msg_roundtrip WhatIsNetNum eq_refl). Qed.
Print Assumptions C08_msg_roundtrip_what_is_network_number.

Theorem C08_msg_roundtrip_network_number_is : forall net flag, (net <? 65536) && (flag <? 256) = true ->
  exists bs, enc_msg (NetNumIs net flag) = Ok bs /\ dec_msg 0x13 bs = Ok (NetNumIs net flag, []).
Proof. exact (fun net flag => msg_roundtrip (NetNumIs net flag)). Qed.
Print Assumptions C08_msg_roundtrip_network_number_is.

(* whole frames: message.encode + NPDU.encode, then NPDU.decode + dispatch through the registry, under
   any well-formed header: same header fields, same message, nothing left over *)
Theorem C08_frame_roundtrip : forall h m,
  wf_npci (with_msg h (msg_type m)) = true -> wf_msg m = true ->
  exists bs, enc_frame h m = Ok bs
    /\ dec_frame bs = Ok (control_of (with_msg h (msg_type m)), with_msg h (msg_type m), m, []).
Proof. exact frame_roundtrip. Qed.
Print Assumptions C08_frame_roundtrip.

(* the registry: a type code has a decoder exactly when it is one of the twelve codes; a decoder
   returns the message class of its own code; registered decoders fail only with DecodingError *)
Theorem C08_registry :
  (forall t, In t registered_types <-> forall bs, dec_msg t bs <> Err KeyErr)
  /\ (forall t bs, ~ In t registered_types -> dec_msg t bs = Err KeyErr)
  /\ (forall m, In (msg_type m) registered_types)
  /\ (forall t bs m r, dec_msg t bs = Ok (m, r) -> msg_type m = t)
  /\ (forall t bs e, In t registered_types -> dec_msg t bs = Err e -> e = DecodingError)
  /\ NoDup registered_types /\ length registered_types = 12%nat.
Proof.
  exact (conj registry (conj dec_msg_unregistered (conj msg_type_registered (conj dec_msg_type
        (conj dec_msg_registered registered_nodup))))).
Qed.
Print Assumptions C08_registry.

(* the registry as translated from the working tree (coq/gen/NpduRegistry.v = npdu.npdu_types, written by
   translator/gen_npdu.py on every run): it is the model's table, the model's dispatch has a decoder exactly
   for its keys, and the decoder under key t builds the class the table has under t *)
Theorem C08_registry_translated :
  npdu_types = model_registry
  /\ (forall t, In t (map fst npdu_types) <-> forall bs, dec_msg t bs <> Err KeyErr)
  /\ (forall t bs, ~ In t (map fst npdu_types) -> dec_msg t bs = Err KeyErr)
  /\ (forall t bs m r, dec_msg t bs = Ok (m, r) -> In (t, msg_class_name m) npdu_types)
  /\ NoDup (map fst npdu_types) /\ NoDup (map snd npdu_types).
Proof.
  exact (conj registry_table_exact (conj registry_dispatch (conj registry_unregistered
        (conj registry_class registry_nodup)))).
Qed.
Print Assumptions C08_registry_translated.

(* ---- message bodies cut short.
   Fixed-layout messages — I-Could-Be-Router (3 octets), Reject-Message (3), Establish-Connection (3),
   Disconnect-Connection (2), Network-Number-Is (3), Initialize-Routing-Table and its Ack (count octet +
   entries; What-Is-Network-Number has an empty body and no proper prefix): EVERY proper prefix of the
   encoded body is refused with DecodingError — in particular a routing table is never returned shorter *)
Theorem C08_msg_truncated_fixed : forall m bs k,
  wf_msg m = true -> fixed_msg m = true -> enc_msg m = Ok bs -> (k < length bs)%nat ->
  dec_msg (msg_type m) (firstn k bs) = Err DecodingError.
Proof. exact msg_truncated_fixed. Qed.
Print Assumptions C08_msg_truncated_fixed.

(* network lists — I-Am-Router (1), Router-Busy (4), Router-Available (5), body = 2 octets per network:
   the first k octets decode to the first k/2 networks exactly when k is even (the cut falls on an element
   boundary) and are refused with DecodingError when k is odd *)
Theorem C08_msg_truncated_nets : forall t c l k,
  nets_ctor t = Some c -> wf_nets l = true -> (k <= length (put_nets l))%nat ->
  dec_msg t (firstn k (put_nets l))
  = if Nat.even k then Ok (c (firstn (Nat.div2 k) l), []) else Err DecodingError.
Proof. exact msg_truncated_nets. Qed.
Print Assumptions C08_msg_truncated_nets.

(* Who-Is-Router (0): the network is optional — an empty body is the form without network, one octet is
   refused, two or more octets give the network and leave the rest; so of the two proper prefixes of an
   encoded network the empty one decodes to "no network" and the 1-octet one is refused, and trailing
   octets are left in the buffer *)
Theorem C08_msg_who_is_router_shapes :
  dec_msg 0 [] = Ok (WhoIsRouter None, [])
  /\ (forall a, dec_msg 0 [a] = Err DecodingError)
  /\ (forall a b x, dec_msg 0 (a :: b :: x) = Ok (WhoIsRouter (Some (a * 256 + b)), x))
  /\ (forall n, n < 65536 ->
        enc_msg (WhoIsRouter (Some n)) = Ok (put_short n)
        /\ dec_msg 0 (firstn 0 (put_short n)) = Ok (WhoIsRouter None, [])
        /\ dec_msg 0 (firstn 1 (put_short n)) = Err DecodingError
        /\ forall x, dec_msg 0 (put_short n ++ x) = Ok (WhoIsRouter (Some n), x)).
Proof.
  exact (conj (proj1 who_is_shapes) (conj (proj1 (proj2 who_is_shapes))
        (conj (proj2 (proj2 who_is_shapes)) who_is_truncated_trailing))).
Qed.
Print Assumptions C08_msg_who_is_router_shapes.

(* ---- trailing octets.  After a fixed-layout message they are left untouched in npdu.pduData ... *)
Theorem C08_msg_trailing_fixed : forall m, wf_msg m = true -> fixed_msg m = true ->
  exists bs, enc_msg m = Ok bs /\ forall x, dec_msg (msg_type m) (bs ++ x) = Ok (m, x).
Proof. exact msg_trailing_fixed. Qed.
Print Assumptions C08_msg_trailing_fixed.

(* ... after a network list they are read as further networks (the decoder consumes the whole buffer):
   the result is the list extended by what the extra octets decode to, or DecodingError if those are odd *)
Theorem C08_msg_trailing_nets : forall t c l x, nets_ctor t = Some c -> wf_nets l = true ->
  enc_msg (c l) = Ok (put_nets l)
  /\ dec_msg t (put_nets l ++ x) = do l' <- dec_nets x; Ok (c (l ++ l'), []).
Proof. exact msg_trailing_nets. Qed.
Print Assumptions C08_msg_trailing_nets.

(* ---- decoding is a function of the octets alone: in any two histories of operations (decodes of any
   message class, header decodes, encodes) the same operation gives the same result, namely the result it
   gives on its own.  Trivial here (run_history is a map) — the content is that the implementation is
   compared with THIS on multi-message histories in one process (harness kind `history`) *)
Theorem C08_decode_history_independent : forall before before' after o,
  nth (length before) (run_history (before ++ o :: after)) (run_op o) = run_op o
  /\ nth (length before) (run_history (before ++ o :: after)) (run_op o)
     = nth (length before') (run_history (before' ++ o :: [])) (run_op o).
Proof. exact history_independent. Qed.
Print Assumptions C08_decode_history_independent.

(* ---- reserved control bits.  For EVERY header value (no well-formedness assumed, any priority, any stored
   history): whatever NPCI.encode / NPDU.encode write starts with the version and the control octet control_of h,
   and bits 6 and 4 of that octet are clear (clause 6.2.2) *)
Theorem C08_encode_reserved_bits_clear : forall h payload bs, enc_npdu h payload = Ok bs ->
  exists rest, bs = ver h :: control_of h :: rest /\ N.land (control_of h) 0x50 = 0.
Proof. exact enc_npdu_control. Qed.
Print Assumptions C08_encode_reserved_bits_clear.

(* decode any octets, then encode the same object again: always succeeds and gives the canonical clause 6.2
   frame of the decoded fields followed by the decoded payload; its control octet is the received one with
   bits 6 and 4 cleared; and that frame decodes to the same fields *)
Theorem C08_reencode_canonical : forall bs c h r, bytes_ok bs = true -> dec_npci bs = Ok (c, h, r) ->
  reenc bs = Ok (spec6_2 h ++ r)
  /\ spec_control h = N.land c 0xAF
  /\ dec_npci (spec6_2 h ++ r) = Ok (N.land c 0xAF, h, r).
Proof. exact reenc_canonical. Qed.
Print Assumptions C08_reencode_canonical.

(* fields decoded from octets are always well-formed (so every theorem above applies to them) *)
Theorem C08_decoded_fields_wf : forall bs c h r, bytes_ok bs = true -> dec_npci bs = Ok (c, h, r) ->
  wf_npci h = true /\ spec_control h = N.land c 0xAF /\ c < 256.
Proof. exact dec_npci_wf. Qed.
Print Assumptions C08_decoded_fields_wf.

(* ---- the tie by TRANSLATION.  BacGen.NpciFns is regenerated from py34/bacpypes/npdu.py on every run
   (translator/gen_npcifns.py: the bodies of NPCI.encode/decode, NPDU.encode/decode and the encode/decode
   methods of the twelve message classes, statement by statement).  The translated methods are, for all
   inputs, the hand model the theorems above are about ... *)

(* NPCI.encode on arbitrary objects: the octets appended to the PDU are enc_npci of the object's fields (or
   the same exception), the control octet is stored in npduControl, expecting-reply / priority are passed down *)
Theorem C08_translated_npci_encode_is_model : forall o p,
  NPCI_encode o p =
  do b <- enc_npci (npci_of o);
  Ok (set_npduControl (Some (control_of (npci_of o))) o,
      set_pduNetworkPriority (pduNetworkPriority o) (set_pduExpectingReply (pduExpectingReply o) (app_data b p))).
Proof. exact NPCI_encode_is_model. Qed.
Print Assumptions C08_translated_npci_encode_is_model.

(* NPCI.decode on arbitrary objects and buffers: dec_npci of the buffer; the raw control octet is stored; a
   field the frame does not carry keeps the value the object had *)
Theorem C08_translated_npci_decode_is_model : forall o p,
  NPCI_decode o p = do (ch, r) <- dec_npci (pduData p); Ok (obj_after o (fst ch) (snd ch), set_pduData r p).
Proof. exact NPCI_decode_is_model. Qed.
Print Assumptions C08_translated_npci_decode_is_model.

Theorem C08_translated_npdu_is_model :
  (forall h payload, gen_enc_npdu h payload = enc_npdu h payload) /\ (forall bs, gen_dec_npdu bs = dec_npdu bs).
Proof. exact (conj gen_enc_npdu_is_model gen_dec_npdu_is_model). Qed.
Print Assumptions C08_translated_npdu_is_model.

Theorem C08_translated_header_is_model :
  (forall h, gen_enc_npci h = enc_npci h) /\ (forall bs, gen_dec_npci bs = dec_npci bs).
Proof. exact (conj gen_enc_npci_is_model gen_dec_npci_is_model). Qed.
Print Assumptions C08_translated_header_is_model.

(* the twelve message classes: every translated encode is enc_msg, every translated decode (dispatched on
   the translated messageType constants) is dec_msg, on every parameter value / every octet string *)
Theorem C08_translated_msg_is_model :
  (forall m, gen_enc_msg m = enc_msg m) /\ (forall t bs, gen_dec_msg t bs = dec_msg t bs).
Proof. exact (conj gen_enc_msg_is_model gen_dec_msg_is_model). Qed.
Print Assumptions C08_translated_msg_is_model.

Theorem C08_translated_frame_is_model :
  (forall h m, gen_enc_frame h m = enc_frame h m) /\ (forall bs, gen_dec_frame bs = dec_frame bs).
Proof. exact (conj gen_enc_frame_is_model gen_dec_frame_is_model). Qed.
Print Assumptions C08_translated_frame_is_model.

(* ... so the main facts hold of the code as translated now: *)
Theorem C08_translated_roundtrip : forall h payload, wf_npci h = true ->
  exists bs, gen_enc_npci h = Ok bs /\ gen_dec_npci (bs ++ payload) = Ok (control_of h, h, payload).
Proof. exact gen_roundtrip. Qed.
Print Assumptions C08_translated_roundtrip.

Theorem C08_translated_layout : forall h, wf_npci h = true -> gen_enc_npci h = Ok (spec6_2 h).
Proof. exact gen_layout. Qed.
Print Assumptions C08_translated_layout.

Theorem C08_translated_refuses_version : forall bs, (forall r, bs <> 1 :: r) -> gen_dec_npci bs = Err DecodingError.
Proof. exact gen_refuses_version. Qed.
Print Assumptions C08_translated_refuses_version.

Theorem C08_translated_refuses_bad_sadr : forall h net mac payload,
  wf_npci (with_sadr h None) = true -> net < 65536 -> lenN mac < 256 -> (net = 65535 \/ mac = []) ->
  exists bs, gen_enc_npci (with_sadr h (Some (RStation net mac))) = Ok bs
    /\ bs = spec6_2 (with_sadr h (Some (RStation net mac)))
    /\ gen_dec_npci (bs ++ payload) = Err DecodingError.
Proof. exact gen_refuses_bad_sadr. Qed.
Print Assumptions C08_translated_refuses_bad_sadr.

Theorem C08_translated_refuses_truncated : forall h bs k, wf_npci h = true -> gen_enc_npci h = Ok bs ->
  (k < length bs)%nat -> gen_dec_npci (firstn k bs) = Err DecodingError.
Proof. exact gen_refuses_truncated. Qed.
Print Assumptions C08_translated_refuses_truncated.

Theorem C08_translated_decode_error_class : forall bs e, gen_dec_npci bs = Err e -> e = DecodingError.
Proof. exact gen_decode_error_class. Qed.
Print Assumptions C08_translated_decode_error_class.

Theorem C08_translated_msg_roundtrip : forall m, wf_msg m = true ->
  exists bs, gen_enc_msg m = Ok bs /\ gen_dec_msg (msg_type m) bs = Ok (m, []).
Proof. exact gen_msg_roundtrip. Qed.
Print Assumptions C08_translated_msg_roundtrip.

Theorem C08_translated_frame_roundtrip : forall h m,
  wf_npci (with_msg h (msg_type m)) = true -> wf_msg m = true ->
  exists bs, gen_enc_frame h m = Ok bs
    /\ gen_dec_frame bs = Ok (control_of (with_msg h (msg_type m)), with_msg h (msg_type m), m, []).
Proof. exact gen_frame_roundtrip. Qed.
Print Assumptions C08_translated_frame_roundtrip.

Theorem C08_translated_unregistered : forall t bs, ~ In t registered_types -> gen_dec_msg t bs = Err KeyErr.
Proof. exact gen_unregistered. Qed.
Print Assumptions C08_translated_unregistered.

(* ---- non-vacuity: the hypotheses are satisfiable, with every optional field exercised *)
Example C08_wf_examples :
  forallb wf_npci
    [ mkNpci 1 false 0 None None None None None;
      mkNpci 1 true 3 (Some (RStation 5 [1;2;3])) (Some (RStation 7 [9])) (Some 255) None None;
      mkNpci 1 false 2 (Some GBroadcast) None (Some 254) (Some 0x13) None;
      mkNpci 1 true 1 (Some (RBroadcast 65534)) (Some (RStation 0 [1;2;3;4;5;6])) (Some 0) (Some 0x80) (Some 65535);
      mkNpci 1 false 0 (Some (RStation 1 (repeat 7 255))) None (Some 1) (Some 0xFF) (Some 260) ] = true.
Proof. vm_compute. reflexivity. Qed.

Example C08_roundtrip_example :
  enc_npdu (mkNpci 1 true 3 (Some (RStation 5 [1;2;3])) (Some (RStation 7 [9])) (Some 255) None None) [1;2]
    = Ok [1; 0x2F; 0; 5; 3; 1; 2; 3; 0; 7; 1; 9; 255; 1; 2]
  /\ dec_npci [1; 0x2F; 0; 5; 3; 1; 2; 3; 0; 7; 1; 9; 255; 1; 2]
    = Ok (0x2F, mkNpci 1 true 3 (Some (RStation 5 [1;2;3])) (Some (RStation 7 [9])) (Some 255) None None, [1;2]).
Proof. vm_compute. split; reflexivity. Qed.

Example C08_refusal_examples :
  dec_npci [2; 0] = Err DecodingError                         (* version 2 *)
  /\ dec_npci [1; 8; 255; 255; 1; 1] = Err DecodingError      (* SNET = 0xFFFF *)
  /\ dec_npci [1; 8; 0; 5; 0] = Err DecodingError             (* SLEN = 0 *)
  /\ dec_npci [1; 0x20; 0; 5; 1; 9] = Err DecodingError       (* hop count missing *)
  /\ wf_npci (with_sadr (mkNpci 1 false 0 None None None None None) None) = true.
Proof. vm_compute. repeat split; reflexivity. Qed.

Example C08_msg_examples :
  forallb wf_msg
    [ WhoIsRouter None; WhoIsRouter (Some 65535); IAmRouter [1;2;65535]; ICouldBeRouter 5 255;
      RejectMessage 3 7; RouterBusy []; RouterAvailable [0];
      InitRT [mkRte 5 1 [1;2]; mkRte 65535 255 (repeat 0 255)]; InitRTAck [];
      EstablishConn 5 255; DisconnectConn 0; WhatIsNetNum; NetNumIs 65535 1 ] = true
  /\ enc_frame (mkNpci 1 false 0 None None None None None) (InitRT [mkRte 5 1 [1;2]])
     = Ok [1; 0x80; 6; 1; 0; 5; 1; 2; 1; 2]
  /\ dec_frame [1; 0x80; 6; 1; 0; 5; 1; 2; 1; 2]
     = Ok (0x80, mkNpci 1 false 0 None None None (Some 6) None, InitRT [mkRte 5 1 [1;2]], []).
Proof. vm_compute. repeat split; reflexivity. Qed.

Example C08_body_examples :
  fixed_msg (InitRT [mkRte 5 1 [1;2]; mkRte 6 2 []]) = true
  /\ enc_msg (InitRT [mkRte 5 1 [1;2]; mkRte 6 2 []]) = Ok [2; 0; 5; 1; 2; 1; 2; 0; 6; 2; 0]
  /\ dec_msg 6 [2; 0; 5; 1; 2; 1; 2; 0; 6; 2] = Err DecodingError          (* last octet missing *)
  /\ dec_msg 6 [2; 0; 5; 1; 2; 1; 2] = Err DecodingError                   (* second entry missing *)
  /\ dec_msg 6 [2; 0; 5; 1; 2; 1; 2; 0; 6; 2; 0; 9] = Ok (InitRT [mkRte 5 1 [1;2]; mkRte 6 2 []], [9])
  /\ nets_ctor 5 = Some RouterAvailable
  /\ dec_msg 5 (firstn 4 (put_nets [1; 2; 3])) = Ok (RouterAvailable [1; 2], [])
  /\ dec_msg 5 (firstn 3 (put_nets [1; 2; 3])) = Err DecodingError
  /\ dec_msg 5 (put_nets [1; 2] ++ [0; 9]) = Ok (RouterAvailable [1; 2; 9], [])
  /\ run_history [OpDecMsg 5 [0;1]; OpDecMsg 5 [0;2]; OpEncMsg (RouterAvailable [])]
     = [RDecMsg (Ok (RouterAvailable [1], [])); RDecMsg (Ok (RouterAvailable [2], [])); REncMsg (Ok [])].
Proof. vm_compute. repeat split; reflexivity. Qed.

Example C08_reenc_examples :
  reenc [1; 0x6C; 0; 5; 1; 9; 0; 2; 1; 44; 7; 0xAA] = Ok [1; 0x2C; 0; 5; 1; 9; 0; 2; 1; 44; 7; 0xAA]   (* bit 6 dropped *)
  /\ reenc_fwd (mkFwd (Some (RStation 3 [8])) false) [1; 0x70; 0; 5; 1; 9; 7; 0xAA]
     = Ok (Some [1; 0x28; 0; 5; 1; 9; 0; 3; 1; 8; 6; 0xAA])          (* bits 6,4 dropped, SADR added, hop count 6 *)
  /\ reenc_fwd (mkFwd None true) [1; 0x20; 0; 5; 1; 9; 0] = Ok None                                   (* hop count 0 *)
  /\ reenc_frame [1; 0xD0; 5; 0; 1; 0; 2] = Ok [1; 0x80; 5; 0; 1; 0; 2].
Proof. vm_compute. repeat split; reflexivity. Qed.

(* the translated functions compute: the example frames above through the code as translated *)
Example C08_translated_examples :
  gen_enc_npdu (mkNpci 1 true 3 (Some (RStation 5 [1;2;3])) (Some (RStation 7 [9])) (Some 255) None None) [1;2]
    = Ok [1; 0x2F; 0; 5; 3; 1; 2; 3; 0; 7; 1; 9; 255; 1; 2]
  /\ gen_dec_npci [1; 0x2F; 0; 5; 3; 1; 2; 3; 0; 7; 1; 9; 255; 1; 2]
    = Ok (0x2F, mkNpci 1 true 3 (Some (RStation 5 [1;2;3])) (Some (RStation 7 [9])) (Some 255) None None, [1;2])
  /\ gen_dec_npci [1; 8; 0; 5; 0] = Err DecodingError
  /\ gen_enc_msg (InitRT [mkRte 5 1 [1;2]; mkRte 6 2 []]) = Ok [2; 0; 5; 1; 2; 1; 2; 0; 6; 2; 0]
  /\ gen_dec_msg 6 [2; 0; 5; 1; 2; 1; 2; 0; 6; 2; 0; 9] = Ok (InitRT [mkRte 5 1 [1;2]; mkRte 6 2 []], [9])
  /\ gen_dec_msg 1 [0; 5; 1; 0; 7] = Err DecodingError
  /\ gen_dec_msg 1 [0; 5; 1; 0] = Ok (IAmRouter [5; 256], [])
  /\ gen_dec_frame [1; 0x80; 5; 0; 1; 0; 2] = Ok (0x80, mkNpci 1 false 0 None None None (Some 5) None, RouterAvailable [1; 2], []).
Proof. vm_compute. repeat split; reflexivity. Qed.
