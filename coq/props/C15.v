(* C15 — Property reads and writes over the wire are consistent, typed, all-or-nothing.
   Property theorems only; the model is Bac.Obj, proofs live in Bac.ObjFacts / ObjRw / ObjRpm. *)
From Bac Require Import Base PyRt Obj ObjFacts ObjRw ObjRpm ObjWire.
Open Scope Z_scope.

(* After an acknowledged WriteProperty (any datatype, any array index class) ReadProperty of the same property
   and index answers with exactly the items the written value denotes (raw_val of the value the service cast
   out of the request); if one of those items cannot be encoded the read raises that very exception. *)
Theorem C15_write_then_read : forall d oid pid idx w d',
  oid <> WILDCARD_DEVICE -> do_write d oid pid idx w = XOk d' ->
  exists o p cur cv,
    find_obj (d_objs d) oid = Some o /\ find_prop o pid = Some (p, cur) /\
    cast_for (p_dt p) idx w = Ok cv /\
    do_read d' oid pid idx = xbind (lift (raw_val cv)) (fun its => XOk (oid, its)).
Proof. exact write_then_read. Qed.
Print Assumptions C15_write_then_read.

(* the atomic instance: the very tag that was written comes back *)
Theorem C15_write_then_read_atom : forall d oid pid w d' o p cur k lo hi c,
  oid <> WILDCARD_DEVICE -> do_write d oid pid None w = XOk d' ->
  find_obj (d_objs d) oid = Some o -> find_prop o pid = Some (p, cur) ->
  p_dt p = DS (SAtom k lo hi) -> w_tags w = [WApp k c] -> k <> 0 ->
  step d' (ORead oid pid None) = (RValue oid pid None [IA k c], d').
Proof. exact write_then_read_atom. Qed.
Print Assumptions C15_write_then_read_atom.

(* every reply other than SimpleAck (Error, Reject, Abort, and all read replies) leaves the whole device unchanged *)
Theorem C15_refused_unchanged : forall d o rep d', step d o = (rep, d') -> rep <> RAck -> d' = d.
Proof. exact step_refused_unchanged. Qed.
Print Assumptions C15_refused_unchanged.

(* an acknowledged write changes nothing but the addressed property of the addressed object *)
Theorem C15_write_frame : forall d oid pid idx w d' oid2 pid2,
  do_write d oid pid idx w = XOk d' -> (oid2, pid2) <> (oid, pid) -> lookup d' oid2 pid2 = lookup d oid2 pid2.
Proof. exact do_write_frame. Qed.
Print Assumptions C15_write_frame.

(* index 0 -> length, 1..n -> the element, anything else -> invalid-array-index *)
Theorem C15_array_index : forall o pid p n l s fixed proto,
  find_prop o pid = Some (p, VArr n l) -> p_dt p = DArray s fixed proto -> n = zlength l ->
  read_any o pid (Some 0) = XOk [IA 2 n] /\
  (forall i, 1 <= i <= n -> exists e, nth_error l (Z.to_nat (i - 1)) = Some e /\
                                      read_any o pid (Some i) = lift (enc_elem s e)) /\
  (forall i, i < 0 \/ n < i -> read_any o pid (Some i) = XErr (ExecErr EC_PROPERTY E_INVALID_ARRAY_INDEX)).
Proof. exact array_index. Qed.
Print Assumptions C15_array_index.

(* its hypothesis n = len(elements) is an invariant of Property.WriteProperty (resize, element and whole writes) *)
Theorem C15_array_invariant : forall p cur idx cv nv,
  ((exists e, cv = VS e) \/ (exists l, cv = VPyList l)) -> wf_val cur ->
  prop_write p cur idx cv = XOk nv -> wf_val nv.
Proof. exact prop_write_wf. Qed.
Print Assumptions C15_array_invariant.

(* and of the objectList updates of Application.add_object / delete_object (ArrayOf.append, index + __delitem__):
   the length slot stays the number of elements, which grows / shrinks by exactly one *)
Theorem C15_object_list_invariant :
  (forall v x v', arr_append v x = Ok v' -> wf_val v' /\ elems v' = elems v ++ [x]) /\
  (forall v x v', wf_val v -> arr_remove v x = Ok v' -> wf_val v' /\ S (length (elems v')) = length (elems v)).
Proof. exact object_list_invariant. Qed.
Print Assumptions C15_object_list_invariant.

(* "1..n -> the element" at full strength (always a value) is false of the code: growing an array of a
   constructed element type without prototype appends instances that do not encode (known finding
   C15-grow-constructed-array).  C15_array_index is the true restriction: the answer is enc_elem of the element. *)
Definition ex_p_real := mkP 85 (DS (SAtom 4 0 None)) false true.
Definition ex_p_arr := mkP 87 (DArray (SAtom 2 0 None) None (EAtom 2 0)) true true.
Definition ex_p_cons := mkP 130 (DArray (SCons 5) None (EBad 5 MissingRequired)) true true.
Definition ex_p_name := mkP 77 (DS (SAtom 7 0 None)) false false.
Definition ex_p_list := mkP 53 (DList (SAtom 2 0 None)) true true.
Definition ex_dev := mkDev 100
  [(1, [(ex_p_real, VS (EAtom 4 11)); (ex_p_arr, VArr 2 [EAtom 2 7; EAtom 2 8]); (ex_p_cons, VArr 0 []);
        (ex_p_name, VS (EAtom 7 3)); (ex_p_list, VNone)])].
Definition ex_w (ts : list wtag) := mkW ts (Err OtherErr) (Err OtherErr).

Theorem C15_array_index_refuted : exists d w d',
  do_write d 1 130 (Some 0) w = XOk d' /\
  fst (step d' (ORead 1 130 (Some 0))) = RValue 1 130 (Some 0) [IA 2 1] /\
  fst (step d' (ORead 1 130 (Some 1))) = RReject 5 /\
  fst (step d' (ORead 1 130 None)) = RReject 5.
Proof. exists ex_dev, (ex_w [WApp 2 1]). eexists. repeat split; vm_compute; reflexivity. Qed.
Print Assumptions C15_array_index_refuted.

(* unknown object / unknown property / read-only / wrong atomic datatype / bad index: which reply, state unchanged *)
Theorem C15_error_mapping :
  (forall d oid pid idx, find_obj (d_objs d) (map_oid d oid) = None ->
     step d (ORead oid pid idx) = (RError EC_OBJECT E_UNKNOWN_OBJECT, d)) /\
  (forall d oid pid idx prio w, find_obj (d_objs d) oid = None ->
     step d (OWrite oid pid idx prio w) = (RError EC_OBJECT E_UNKNOWN_OBJECT, d)) /\
  (forall d oid pid idx o, find_obj (d_objs d) (map_oid d oid) = Some o -> find_prop o pid = None ->
     step d (ORead oid pid idx) = (RError EC_PROPERTY E_UNKNOWN_PROPERTY, d)) /\
  (forall d oid pid idx prio w o, find_obj (d_objs d) oid = Some o -> find_prop o pid = None ->
     step d (OWrite oid pid idx prio w) = (RError EC_PROPERTY E_UNKNOWN_PROPERTY, d)) /\
  (forall d oid pid idx prio w o p cur r value,
     find_obj (d_objs d) oid = Some o -> find_prop o pid = Some (p, cur) -> p_mut p = false ->
     prop_read p cur idx = XOk r -> r <> VNone -> cast_for (p_dt p) idx w = Ok value ->
     step d (OWrite oid pid idx prio w) = (RError EC_PROPERTY E_WRITE_ACCESS_DENIED, d)) /\
  (forall d oid pid prio w o p cur k lo hi k' c,
     find_obj (d_objs d) oid = Some o -> find_prop o pid = Some (p, cur) -> cur <> VNone ->
     p_dt p = DS (SAtom k lo hi) -> w_tags w = [WApp k' c] -> k' <> k -> k' <> 0 ->
     step d (OWrite oid pid None prio w) = (RReject 4, d)) /\
  (forall d oid pid i prio w o p n l, find_obj (d_objs d) oid = Some o ->
     find_prop o pid = Some (p, VArr n l) -> is_array (p_dt p) = true -> i < 0 \/ n < i ->
     step d (OWrite oid pid (Some i) prio w) = (RError EC_PROPERTY E_INVALID_ARRAY_INDEX, d)).
Proof. exact error_mapping. Qed.
Print Assumptions C15_error_mapping.

(* a Null value is refused by every atomic property (reject, or write-access-denied when read-only) *)
Theorem C15_null_refused : forall d oid pid prio w o p cur k lo hi c,
  find_obj (d_objs d) oid = Some o -> find_prop o pid = Some (p, cur) -> cur <> VNone ->
  p_dt p = DS (SAtom k lo hi) -> w_tags w = [WApp 0 c] ->
  step d (OWrite oid pid None prio w) = (if p_mut p then RReject 3 else RError EC_PROPERTY E_WRITE_ACCESS_DENIED, d).
Proof. exact write_null_atomic. Qed.
Print Assumptions C15_null_refused.

(* ReadPropertyMultiple: an acknowledged result list is the map of the ReadProperty answers over the
   references, the selectors all/required/optional expanded over the object's properties (propertyList and
   absent properties left out); one element is exactly the ReadProperty answer; and the request is
   acknowledged whenever every expanded reference has an answer that can be embedded *)
Theorem C15_rpm_is_map_rp : forall d specs out, do_rpm d specs = XOk out -> out = rpm_spec d specs.
Proof. exact rpm_is_map_rp. Qed.
Print Assumptions C15_rpm_is_map_rp.

Theorem C15_rpm_element_is_rp : forall d oid pid idx r,
  rp_element (obj_of d oid) pid idx = XOk (pid, idx, r) <-> rp_answer d oid pid idx = Some r.
Proof. exact rp_element_is_rp. Qed.
Print Assumptions C15_rpm_element_is_rp.

Theorem C15_rpm_total : forall d specs,
  (forall oid refs, In (oid, refs) specs -> forall ref, In ref refs -> ref_answerable d oid ref) ->
  exists out, do_rpm d specs = XOk out.
Proof. exact rpm_total. Qed.
Print Assumptions C15_rpm_total.

(* ---- the array index as it travels (context-tagged Unsigned; step_wire = decode the index octets, then step) ----
   An index element that is present in the request is never read as "no index": whatever its octets (any number of
   them, leading zeros, all ones) it is Some i with i their big-endian value; only empty data is refused (Reject
   invalid-tag, by the decoder).  So no index value — in particular none of the all-ones markers 0xFF, 0xFFFF,
   0xFFFFFFFF, ... other stacks use for "all elements" — is an alias of the whole property. *)
Theorem C15_wire_index_total : forall bs, bs <> [] -> octets bs ->
  exists i, wire_index (Some bs) = Ok (Some i) /\ i = be_value 0 bs /\ 0 <= i < 256 ^ zlength bs.
Proof. exact wire_index_total. Qed.
Print Assumptions C15_wire_index_total.

Theorem C15_wire_index_all_ones : forall k,
  wire_index (Some (repeat 255 (S k))) = Ok (Some (256 ^ Z.of_nat (S k) - 1)).
Proof. exact wire_index_all_ones. Qed.
Print Assumptions C15_wire_index_all_ones.

(* every index the library's own encoder can send (0 .. 2^32-1, the domain of struct.pack('>L')) reaches the
   service as itself, for ReadProperty and for WriteProperty *)
Theorem C15_wire_index_sent : forall d oid pid i prio w, 0 <= i <= 4294967295 ->
  exists bs, enc_index i = Ok bs /\
    step_wire d (WRead oid pid (Some bs)) = step d (ORead oid pid (Some i)) /\
    step_wire d (WWrite oid pid (Some bs) prio w) = step d (OWrite oid pid (Some i) prio w).
Proof. exact wire_index_sent. Qed.
Print Assumptions C15_wire_index_sent.

(* an index that designates neither the length nor an element — any index on a property that is not an array, an
   index beyond the length of an ArrayOf — is refused whatever its size: ReadProperty and WriteProperty answer
   Error property/invalid-array-index (array) or property/property-is-not-an-array, the device is unchanged, and
   ReadPropertyMultiple embeds that very error for the reference *)
Theorem C15_wire_index_refused : forall d oid pid bs prio w o p cur,
  bs <> [] -> find_prop o pid = Some (p, cur) -> index_is_bad p cur (be_value 0 bs) ->
  (find_obj (d_objs d) (map_oid d oid) = Some o ->
     step_wire d (WRead oid pid (Some bs)) = (RError EC_PROPERTY (bad_index_code p), d)) /\
  (find_obj (d_objs d) oid = Some o ->
     step_wire d (WWrite oid pid (Some bs) prio w) = (RError EC_PROPERTY (bad_index_code p), d)) /\
  rp_element (Some o) pid (Some (be_value 0 bs)) = XOk (pid, Some (be_value 0 bs), RErr EC_PROPERTY (bad_index_code p)).
Proof. exact wire_index_refused. Qed.
Print Assumptions C15_wire_index_refused.

(* non-vacuity: the hypotheses are met by concrete devices and requests *)
Example C15_ex_write_then_read : exists d',
  do_write ex_dev 1 85 None (ex_w [WApp 4 12]) = XOk d' /\
  step d' (ORead 1 85 None) = (RValue 1 85 None [IA 4 12], d').
Proof. eexists. split; vm_compute; reflexivity. Qed.
Example C15_ex_resize : exists d',
  do_write ex_dev 1 87 (Some 0) (ex_w [WApp 2 4]) = XOk d' /\
  fst (step d' (ORead 1 87 None)) = RValue 1 87 None [IA 2 7; IA 2 8; IA 2 0; IA 2 0] /\
  fst (step d' (ORead 1 87 (Some 0))) = RValue 1 87 (Some 0) [IA 2 4] /\
  fst (step d' (ORead 1 87 (Some 5))) = RError EC_PROPERTY E_INVALID_ARRAY_INDEX.
Proof. eexists. repeat split; vm_compute; reflexivity. Qed.
Example C15_ex_refusals :
  fst (step ex_dev (OWrite 1 77 None None (ex_w [WApp 7 9]))) = RError EC_PROPERTY E_WRITE_ACCESS_DENIED /\
  fst (step ex_dev (OWrite 1 85 None (Some 8) (ex_w [WApp 2 9]))) = RReject 4 /\
  fst (step ex_dev (OWrite 1 85 None None (ex_w [WApp 4 9; WApp 4 9]))) = RError EC_DEVICE E_OPERATIONAL_PROBLEM /\
  fst (step ex_dev (OWrite 2 85 None None (ex_w [WApp 4 9]))) = RError EC_OBJECT E_UNKNOWN_OBJECT /\
  fst (step ex_dev (OWrite 1 53 None None (ex_w [WApp 2 9]))) = RError EC_PROPERTY E_UNKNOWN_PROPERTY /\
  fst (step ex_dev (OWrite 1 87 None None (ex_w [WApp 0 0]))) = RReject 3.
Proof. repeat split; vm_compute; reflexivity. Qed.
Example C15_ex_rpm :
  do_rpm ex_dev [(1, [(P_ALL, None); (85, Some 1)]); (9, [(P_REQUIRED, None)])] =
  XOk [(1, [(85, None, RVal [IA 4 11]); (87, None, RVal [IA 2 7; IA 2 8]); (130, None, RVal []); (77, None, RVal [IA 7 3]);
            (85, Some 1, RErr EC_PROPERTY E_NOT_AN_ARRAY)]);
       (9, [(P_REQUIRED, None, RErr EC_OBJECT E_UNKNOWN_OBJECT)])].
Proof. vm_compute. reflexivity. Qed.
Example C15_ex_wf : wf_val (VArr 2 [EAtom 2 7; EAtom 2 8]).
Proof. reflexivity. Qed.
Example C15_ex_life_cycle :
  arr_append (VArr 1 [EAtom 12 5]) (EAtom 12 6) = Ok (VArr 2 [EAtom 12 5; EAtom 12 6]) /\
  arr_remove (VArr 2 [EAtom 12 5; EAtom 12 6]) (EAtom 12 5) = Ok (VArr 1 [EAtom 12 6]) /\
  arr_remove (VArr 1 [EAtom 12 6]) (EAtom 12 5) = Err ValueErr.
Proof. repeat split; vm_compute; reflexivity. Qed.
Example C15_ex_wire_index :
  wire_index (Some [255; 255; 255; 255]) = Ok (Some 4294967295) /\
  enc_index 4294967295 = Ok [255; 255; 255; 255] /\ enc_index 256 = Ok [1; 0] /\
  wire_index (Some [0; 0; 0; 2]) = Ok (Some 2) /\ wire_index (Some []) = Err InvalidTag /\
  wire_index None = Ok None.
Proof. repeat match goal with |- _ /\ _ => split end; vm_compute; reflexivity. Qed.
Example C15_ex_wire_refused :
  fst (step_wire ex_dev (WRead 1 87 (Some [255; 255; 255; 255]))) = RError EC_PROPERTY E_INVALID_ARRAY_INDEX.
Proof. vm_compute. reflexivity. Qed.
Example C15_ex_wire_not_array :
  fst (step_wire ex_dev (WWrite 1 85 (Some [255; 255; 255; 255]) None (ex_w [WApp 4 9]))) = RError EC_PROPERTY E_NOT_AN_ARRAY.
Proof. vm_compute. reflexivity. Qed.
