From Bac Require Import Base Obj ObjFacts.
