(* C04 — a confirmed request ends in exactly one outcome, in bounded time, no residue.
   Property theorems only; the model is Bac.Ssm (ClientSSM / ServerSSM transcribed from appservice.py with the
   fix: commits of known_findings/C04.json applied), proofs in Bac.SsmC04a / Bac.SsmC04 / Bac.SsmC05. *)
From Bac Require Import Base PyRt Ssm SsmFacts SsmC04a SsmC04 SsmC04t SsmC04s SsmC04w SsmC04h SsmC05 SsmWorld.
From Bac Require Iocb IocbFacts DevCache DevCacheFacts.
Open Scope Z_scope.

(* over any sequence of inbound frames and time-outs, in any order and at any instants, a client transaction hands
   the application at most one outcome — counted from ClientSSM.indication on *)
Theorem C04_at_most_one_outcome : forall a s0 ctr now evs, c_ready s0 -> ntoapp (c_life a s0 ctr now evs) <= 1.
Proof. exact c_life_at_most_one. Qed.
Print Assumptions C04_at_most_one_outcome.

(* when there is an outcome it is the last thing the transaction ever emits: no frame follows it *)
Theorem C04_terminal_silent : forall evs s ctr, c_ready s -> ntoapp (c_run evs s ctr) = 1 ->
  exists before a, c_run evs s ctr = before ++ [ToApp a] /\ ntoapp before = 0.
Proof. exact c_run_outcome_last. Qed.
Print Assumptions C04_terminal_silent.

(* one event: an outcome is delivered exactly when the transaction leaves the table; then it is in COMPLETED/ABORTED and
   holds no timer; otherwise it stays ready for the next event *)
Theorem C04_outcome_iff_removed : forall ev s ctr now, c_ready s ->
  let st' := fst (c_handle ev s ctr now) in
  ntoapp (h_outs st') <= 1 /\
  (ntoapp (h_outs st') = 1 <-> h_live st' = false) /\
  (h_live st' = true -> c_ready (h_s st')) /\
  (h_live st' = false -> s_timer (h_s st') = None /\ terminal (h_s st') = true /\
                         match h_outs st' with ToApp _ :: _ => True | _ => False end).
Proof. exact c_handle_step. Qed.
Print Assumptions C04_outcome_iff_removed.

(* no residue / bounded time backbone: after any handler that did not raise, a transaction is in the table iff its timer is armed *)
Theorem C04_live_iff_armed : forall ev s ctr now, c_ready s ->
  (match ev with Timeout => c_state_ok s = true | Rx _ => True end) ->
  snd (c_handle ev s ctr now) = None ->
  (h_live (fst (c_handle ev s ctr now)) = true <-> s_timer (h_s (fst (c_handle ev s ctr now))) <> None).
Proof. exact c_live_iff_armed. Qed.
Print Assumptions C04_live_iff_armed.

(* the request that starts a transaction: every clause of `post` (at most one outcome, listed iff non-terminal, armed iff
   listed, configuration untouched) *)
Theorem C04_indication_post : forall a st, pre st -> post st (c_indication a st).
Proof. exact c_indication_post. Qed.
Print Assumptions C04_indication_post.

(* bounded time: a time-out that leaves the transaction in the table (and did not raise) strictly lowers
   budget = (retries - retryCount) * (retries + 2) + (retries + 1 - segmentRetryCount) and keeps both counters in 0..retries *)
Theorem C04_timeout_measure : forall st, h_live st = true -> terminal (h_s st) = false -> cnt_ok (h_s st) ->
  let r := c_process_task st in
  snd r = None -> h_live (fst r) = true -> budget (h_s (fst r)) < budget (h_s st) /\ cnt_ok (h_s (fst r)).
Proof. exact timeout_budget. Qed.
Print Assumptions C04_timeout_measure.

Theorem C04_budget_nonneg : forall s, cnt_ok s -> 0 <= budget s.
Proof. exact budget_nonneg. Qed.
Print Assumptions C04_budget_nonneg.

(* bounded time, composed.  A scheduled history (`valid_run`): instants do not go back, a frame is handled no later than the
   armed deadline, a time-out exactly at it, no handler raises, nothing is handled after removal.  With K = n_rx evs frames
   received there are at most budget + K*retries + 1 time-outs, and every event — in particular the one that delivers the
   outcome — happens within (budget + K*(retries+1) + 1) * max(apduTimeout, segmentTimeout) of the start.  `_partial`:
   K is a parameter of the history (the network decides how many frames arrive), not bounded by the theorem. *)
Theorem C04_outcome_within_partial : forall evs s ctr t0, c_ready s -> cnt_ok s ->
  (forall w c, s_timer s = Some (w, c) -> w <= t0 + Tmax s) ->
  valid_run evs s ctr t0 ->
  n_to evs <= budget s + n_rx evs * s_retries s + 1 /\
  last_time evs t0 <= t0 + (budget s + n_rx evs * (s_retries s + 1) + 1) * Tmax s.
Proof.
  intros evs s ctr t0 Hr Hc Hd Hv. split.
  - exact (proj1 (run_bound evs s ctr t0 Hr Hc Hd Hv)).
  - exact (outcome_within evs s ctr t0 Hr Hc Hd Hv).
Qed.
Print Assumptions C04_outcome_within_partial.

(* for a request just submitted the budget is retries^2 + 3*retries + 1 (19 time-outs for the default 3 retries) *)
Theorem C04_fresh_budget : forall s, s_retry s = 0 -> s_segretry s = 0 -> budget s = s_retries s * s_retries s + 3 * s_retries s + 1.
Proof. exact fresh_budget. Qed.
Print Assumptions C04_fresh_budget.

(* the serving side over whole histories: from the first frame (a request as the header decoder can produce it) through any
   sequence of frames, application answers and time-outs — raising handlers included — a server transaction that is still
   in the table is armed and in a state that has a time-out handler (s_inv); one that left it is COMPLETED/ABORTED without
   a timer (s_done) *)
Theorem C04_server_history_no_residue : forall a s0 ctr now evs, wf_request a -> s_state s0 = IDLE -> 0 < s_app_to s0 -> 0 < s_seg_to s0 ->
  let r := s_life a s0 ctr now evs in (snd r = true -> s_inv (fst r)) /\ (snd r = false -> s_done (fst r)).
Proof. exact s_life_inv. Qed.
Print Assumptions C04_server_history_no_residue.

Theorem C04_server_history_invariant : forall evs s ctr, s_inv s ->
  let r := s_after evs s ctr in (snd r = true -> s_inv (fst r)) /\ (snd r = false -> s_done (fst r)).
Proof. exact s_history_inv. Qed.
Print Assumptions C04_server_history_invariant.

(* the serving side keeps no residue either: for every frame in every state, for the application's answer and for every
   time-out, a ServerSSM is in the table iff it is not COMPLETED/ABORTED, a removed one holds no timer, and one that stays
   has its timer armed whenever the handler did not raise (for a frame: provided it was armed before, or the transaction is new) *)
Theorem C04_server_frame_no_residue : forall a st, pre_s st ->
  post_s st (s_indication a st) (s_timer (h_s st) <> None \/ s_state (h_s st) = IDLE).
Proof. exact s_indication_post. Qed.
Print Assumptions C04_server_frame_no_residue.

Theorem C04_server_answer_no_residue : forall a st, pre_s st -> post_s st (s_confirmation a st) (s_timer (h_s st) <> None).
Proof. exact s_confirmation_post. Qed.
Print Assumptions C04_server_answer_no_residue.

Theorem C04_server_timeout_no_residue : forall st, pre_s st -> post_s st (s_process_task st) True.
Proof. exact s_timeouts_post. Qed.
Print Assumptions C04_server_timeout_no_residue.

(* the IOCB layer (IOController / IOQController / SieveQueue / ApplicationIOController, model Bac.Iocb): over ANY history of
   submissions (also several to one address, also refused below, also with callbacks that submit follow-up requests), confirmations from below, client aborts and batches of
   deferred functions, every IOCB's callback has fired exactly once if it is COMPLETED/ABORTED and not at all otherwise *)
Theorem C04_iocb_once : forall ops i b, Iocb.lookup i (Iocb.w_io (Iocb.run_world ops)) = Some b -> IocbFacts.inv_io b.
Proof. exact IocbFacts.iocb_once. Qed.
Print Assumptions C04_iocb_once.

(* complete_io / abort_io are idempotent, and more: a finished IOCB is left exactly as it is by every later operation *)
Theorem C04_iocb_finished_untouched : forall ops w i b, Iocb.lookup i (Iocb.w_io w) = Some b -> Iocb.terminal_io b = true ->
  Iocb.lookup i (Iocb.w_io (fold_left (fun w o => Iocb.do_op o w) ops w)) = Some b.
Proof. exact IocbFacts.iocb_finished_untouched. Qed.
Print Assumptions C04_iocb_finished_untouched.

(* the per-address queue advances: the deferred _trigger of an idle queue starts its first waiting IOCB (hands its request down) *)
Theorem C04_iocb_queue_advances : forall a g w q i r b,
  Iocb.lookup a (Iocb.w_qs w) = Some q -> Iocb.q_gen q = g -> Iocb.q_state q = 0 -> Iocb.q_queue q = i :: r ->
  Iocb.lookup i (Iocb.w_io w) = Some b -> Iocb.i_state b = Iocb.IO_PENDING -> Iocb.i_fail b = false ->
  let w' := Iocb.trigger a g w in
  Iocb.lookup a (Iocb.w_qs w') = Some (Iocb.mkSq g 1 (Some i) r) /\
  Iocb.lookup i (Iocb.w_io w') = Some (Iocb.mkIo Iocb.IO_ACTIVE (Iocb.i_cb b) false (Iocb.i_addr b) (Iocb.i_follow b)) /\
  Iocb.w_ev w' = [20; i] :: Iocb.w_ev w.
Proof. exact IocbFacts.trigger_advances. Qed.
Print Assumptions C04_iocb_queue_advances.

(* queue_by_address cleanup: the confirmation of the only request of an address removes that address's queue, provided its
   callback submits no follow-up request; when it submits one to the same address the queue stays and holds the follow-up *)
Theorem C04_iocb_queue_cleanup : forall a ok w q i,
  Iocb.lookup a (Iocb.w_qs w) = Some q -> Iocb.q_active q = Some i -> Iocb.q_queue q = [] ->
  (forall b, Iocb.lookup i (Iocb.w_io w) = Some b -> Iocb.i_follow b = None) ->
  Iocb.lookup a (Iocb.w_qs (Iocb.confirm a ok w)) = None.
Proof. exact IocbFacts.confirm_cleanup. Qed.
Print Assumptions C04_iocb_queue_cleanup.

Theorem C04_iocb_followup_keeps_queue :
  let w := Iocb.run_world [Iocb.OSubmit 0 10 false (Some (1, 10, false))] in
  let w' := Iocb.confirm 10 true w in
  exists q, Iocb.lookup 10 (Iocb.w_qs w') = Some q /\ Iocb.q_queue q = [1] /\ Iocb.q_active q = None.
Proof. exact IocbFacts.confirm_keeps_queue_for_followup. Qed.
Print Assumptions C04_iocb_followup_keeps_queue.

(* the handlers can raise: a retransmitted ConfirmedRequest that meets a server sending a segmented response *)
Theorem C04_no_exn_refuted : exists s a, s_state s = SEGMENTED_RESPONSE /\ a_type a = 0 /\
  snd (s_indication a (mkH s [] 1 0 true)) = Some RuntimeErr.
Proof. exists busy_server, (mk_creq false false true (-1) (-1) 0 0 5 12 [1; 2]). vm_compute. repeat split. Qed.
Print Assumptions C04_no_exn_refuted.

(* the fixed defect: a request with a reserved max-APDU code is answered with an abort and leaves the table *)
Theorem C04_reserved_maxresp_no_residue :
  forallb (fun code =>
    let st := fst (s_idle (mk_creq false false true (-1) (-1) 0 code 5 12 [1]) (mkH fresh_server [] 0 0 true)) in
    negb (h_live st) && (s_state (h_s st) =? ABORTED)
    && match h_outs st with [Tx x] => (a_type x =? 7) && (a_invoke x =? 5) | _ => false end
    && match s_timer (h_s st) with None => true | Some _ => false end)
    [6; 7; 8; 9; 10; 11; 12; 13; 14; 15] = true.
Proof. vm_compute. reflexivity. Qed.
Print Assumptions C04_reserved_maxresp_no_residue.

(* non-vacuity: a fresh client transaction is ready; a run with an outcome exists *)
Example C04_ready_example : c_ready fresh_client.
Proof. vm_compute. repeat split. Qed.
Example C04_server_pre_example : pre_s (mkH fresh_server [] 0 0 true) /\ pre_s (mkH busy_server [] 0 0 true).
Proof. vm_compute. repeat split; discriminate. Qed.
Example C04_valid_run_example :
  let s1 := h_s (fst (c_indication (mk_creq false false false (-1) (-1) (-1) (-1) 1 12 [1; 2; 3]) (mkH fresh_client [] 0 0 true))) in
  valid_run [(3000, Timeout); (4000, Rx (mk_sack 1 12))] s1 1 0 /\ cnt_ok s1 /\ c_ready s1.
Proof.
  cbv zeta. split; [|split].
  - cbn [valid_run]. split; [lia|]. split; [exists 3000, 0; vm_compute; repeat split; congruence|]. split; [vm_compute; reflexivity|].
    vm_compute. split; [discriminate|]. split; [exists 6000, 1; repeat split; discriminate|]. repeat split.
  - vm_compute. repeat split; discriminate.
  - vm_compute. repeat split.
Qed.
Example C04_wf_request_example : wf_request (mk_creq false false true (-1) (-1) 0 9 5 12 [1]) /\ s_state fresh_server = IDLE.
Proof. vm_compute. repeat split; discriminate. Qed.
Example C04_iocb_example :
  Iocb.run_ops 2 [Iocb.OSubmit 0 10 false None; Iocb.OSubmit 1 10 false None; Iocb.OConfirm 10 true; Iocb.ORun; Iocb.OConfirm 10 false]
  = [10; 0; 20; 0; 10; 0; 10; 1; 21; 0; 3; 10; 3; 20; 1; 10; 1; 21; 1; 4; 30; 3; 1; 4; 1; 31; 0; 32; 1].
Proof. vm_compute. reflexivity. Qed.
Example C04_budget_example : cnt_ok fresh_client /\ budget fresh_client = 19.
Proof. vm_compute. repeat split; discriminate. Qed.
Example C04_life_example :
  ntoapp (c_life (mk_creq false false false (-1) (-1) (-1) (-1) 1 12 [1; 2; 3])
                 fresh_client 0 0
                 [(10, Rx (mk_sack 1 12))]) = 1.
Proof. vm_compute. reflexivity. Qed.

(* ---------- DeviceInfoCache reference counts (model Bac.DevCache, proofs Bac.DevCacheFacts) ---------- *)
(* over ANY history of I-Ams (new devices, re-announcements, devices changing address or instance, KeyErrors of
   update_device_info included), transactions being created towards known and unknown peers, transactions finishing in
   any order and ServerSSM.idle upgrading a record in place: the reference count of every record equals the number of
   live transactions that hold that record *)
Theorem C04_refcount_is_live_transactions : forall ops i r,
  nth_error (DevCache.dc_recs (DevCache.ds_cache (DevCache.dsteps ops DevCache.ds_init))) i = Some r ->
  DevCache.dr_ref r = DevCache.holders i (DevCache.ds_live (DevCache.dsteps ops DevCache.ds_init)).
Proof. exact DevCacheFacts.dc_refcount_history. Qed.
Print Assumptions C04_refcount_is_live_transactions.

(* ... hence after any history the release at the end of any transaction does not raise: ClientSSM/ServerSSM.set_state
   goes on to hand the outcome to the application; and creating a transaction never raises *)
Theorem C04_release_never_raises : forall ops k,
  snd (DevCache.dstep (DevCache.DClose k) (DevCache.dsteps ops DevCache.ds_init)) = None.
Proof. exact DevCacheFacts.dc_close_never_raises_history. Qed.
Print Assumptions C04_release_never_raises.

(* no residue: when no transaction is left, no record is referenced *)
Theorem C04_refcount_zero_at_quiescence : forall ops i r,
  DevCache.ds_live (DevCache.dsteps ops DevCache.ds_init) = [] ->
  nth_error (DevCache.dc_recs (DevCache.ds_cache (DevCache.dsteps ops DevCache.ds_init))) i = Some r -> DevCache.dr_ref r = 0.
Proof. exact DevCacheFacts.dc_quiescent_history. Qed.
Print Assumptions C04_refcount_zero_at_quiescence.

(* release keeps every record in the cache under the same keys with the same contents, also when the count reaches zero
   (this cache does not evict): the limits of the peer stay known for the next transaction *)
Theorem C04_release_keeps_records : forall s k,
  let s' := fst (DevCache.dstep (DevCache.DClose k) s) in
  DevCache.dc_by_id (DevCache.ds_cache s') = DevCache.dc_by_id (DevCache.ds_cache s) /\
  DevCache.dc_by_addr (DevCache.ds_cache s') = DevCache.dc_by_addr (DevCache.ds_cache s) /\
  length (DevCache.dc_recs (DevCache.ds_cache s')) = length (DevCache.dc_recs (DevCache.ds_cache s)) /\
  forall i r, nth_error (DevCache.dc_recs (DevCache.ds_cache s)) i = Some r ->
    exists r', nth_error (DevCache.dc_recs (DevCache.ds_cache s')) i = Some r' /\
               DevCache.obs_rec (DevCache.set_ref 0 r') = DevCache.obs_rec (DevCache.set_ref 0 r).
Proof. exact DevCacheFacts.dc_close_keeps_records. Qed.
Print Assumptions C04_release_keeps_records.

(* non-vacuity: two client transactions and one server transaction share the record of peer 2 (count 3), they finish in
   another order than they began, an I-Am re-announces the peer in between; a KeyError history exists too *)
Example C04_devcache_example :
  DevCache.dc_run [DevCache.DIam 2 2 50 3; DevCache.DOpen 2; DevCache.DOpen 2; DevCache.DOpen 2; DevCache.DIam 2 2 128 3;
                   DevCache.DClose 1; DevCache.DClose 0; DevCache.DClose 0]
  = [0; 1; 2; 2; 50; 3; 0; 1; 2; 0; 1; 2; 0; 0;
     0; 1; 2; 2; 50; 3; 1; 1; 2; 0; 1; 2; 0; 1; 2; 0;
     0; 1; 2; 2; 50; 3; 2; 1; 2; 0; 1; 2; 0; 2; 2; 0; 2; 0;
     0; 1; 2; 2; 50; 3; 3; 1; 2; 0; 1; 2; 0; 3; 2; 0; 2; 0; 2; 0;
     0; 1; 2; 2; 128; 3; 3; 1; 2; 0; 1; 2; 0; 3; 2; 0; 2; 0; 2; 0;
     0; 1; 2; 2; 128; 3; 2; 1; 2; 0; 1; 2; 0; 2; 2; 0; 2; 0;
     0; 1; 2; 2; 128; 3; 1; 1; 2; 0; 1; 2; 0; 1; 2; 0;
     0; 1; 2; 2; 128; 3; 0; 1; 2; 0; 1; 2; 0; 0].
Proof. vm_compute. reflexivity. Qed.
Example C04_devcache_keyerror_example :
  exists ops, snd (DevCache.dstep (DevCache.DIam 1 13 50 3) (DevCache.dsteps ops DevCache.ds_init)) = Some KeyErr.
Proof. exists [DevCache.DIam 1 10 50 3; DevCache.DIam 2 11 50 3; DevCache.DIam 1 11 50 3; DevCache.DIam 2 12 50 3]. vm_compute. reflexivity. Qed.
