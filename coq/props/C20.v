From Bac Require Import Base PyRt Calendar ScheduleEval.
