(* C20 — a schedule shows the value its calendar dictates at every instant, never stale.
   Property theorems only; proofs live in Bac.CalendarFacts (about the AST-translated matchers of
   BacGen.ScheduleFns) and Bac.ScheduleFacts (about the hand model Bac.ScheduleEval of
   LocalScheduleInterpreter.eval / process_task, with the two `fix:` commits of the worktree). *)
From Bac Require Import Base PyRt Calendar CalendarFacts ScheduleEval ScheduleSpec ScheduleFacts ScheduleTz ScheduleTzDays ScheduleTzFacts.
From BacGen Require Import ScheduleFns.
Open Scope Z_scope.

(* date patterns: any/odd/even month, last/odd/even day, specific fields, day of week — on every
   calendar date of 1900..2154 the generated match_date says yes exactly on the denoted dates *)
Theorem C20_match_date_denotes : forall d p, valid_date d ->
  (match_date d p = Ok true <-> date_denotes p d).
Proof. exact match_date_denotes. Qed.
Print Assumptions C20_match_date_denotes.

(* week-of-month 1..5 / last-week classes 6..9 / any, month classes, day of week *)
Theorem C20_weeknday_denotes : forall d p, valid_date d -> wf_wnd p ->
  (match_weeknday d p = Ok true <-> wnd_denotes p d).
Proof. exact match_weeknday_denotes. Qed.
Print Assumptions C20_weeknday_denotes.

(* ranges whose ends are specific dates or unspecified (open-ended) — true of the FIXED code
   (commit "fix: match_date_range treats an unspecified start or end date as an open-ended range");
   the unfixed text matched nothing when the start date was unspecified *)
Theorem C20_range_denotes : forall d r, valid_date d -> wf_range r ->
  (match_date_range d r = Ok true <-> range_denotes r d).
Proof. exact match_date_range_denotes. Qed.
Print Assumptions C20_range_denotes.

(* the matchers never raise on a calendar date *)
Theorem C20_matchers_total : forall d, valid_date d ->
  (forall p, exists b, match_date d p = Ok b) /\ (forall w, exists b, match_weeknday d w = Ok b) /\
  (forall r, exists b, match_date_range d r = Ok b).
Proof.
  intros d Hd. repeat split; intros.
  - now apply match_date_total. - now apply match_weeknday_total. - apply match_date_range_total.
Qed.
Print Assumptions C20_matchers_total.

(* a special event's period (calendar entry or referenced calendar) is in force exactly on the
   dates it denotes *)
Theorem C20_period_denotes : forall d p, valid_date d -> wf_period p ->
  exists b, match_period d p = Ok b /\ (b = true <-> period_denotes p d).
Proof. exact match_period_denotes. Qed.
Print Assumptions C20_period_denotes.

(* the evaluated value is the one clause 12.24.4 prescribes: current (latest at-or-before t,
   non-Null) value of the highest-priority exception in force, else of the weekday list, else the
   default.  wf_sched: ascending time lists, priorities 1..16, distinct among the events in force *)
Theorem C20_eval_spec : forall c d t v n, valid_date d -> wf_sched c d ->
  eval c d t = Ok (Some (v, n)) -> in_effect c d /\ spec_value c d t v.
Proof. exact eval_spec. Qed.
Print Assumptions C20_eval_spec.

(* eval yields a value exactly inside the effective period (and never raises) *)
Theorem C20_eval_total : forall c d t, valid_date d -> wf_sched c d ->
  (in_effect c d -> exists v n, eval c d t = Ok (Some (v, n))) /\ (~ in_effect c d -> eval c d t = Ok None).
Proof. exact eval_total. Qed.
Print Assumptions C20_eval_total.

(* never stale: the value cannot change between the evaluated instant and the reported transition
   (wf_sched includes distinct priorities among the events in force — see the _refuted below) *)
Theorem C20_stable_until_next : forall c d t t' v n, valid_date d -> wf_sched c d ->
  eval c d t = Ok (Some (v, n)) -> t4_le t t' = true -> t4_lt t' n = true ->
  exists n', eval c d t' = Ok (Some (v, n')).
Proof. exact eval_stable. Qed.
Print Assumptions C20_stable_until_next.

(* with two special events of equal priority in force the faithful model reports 10:00 as the
   next transition at 08:30 although the value changes at 09:00 (known finding C20-equal-priority) *)
Theorem C20_stable_until_next_refuted : exists c d t t' v n,
  valid_date d /\ eval c d t = Ok (Some (v, n)) /\ t4_le t t' = true /\ t4_lt t' n = true /\
  forall n', eval c d t' <> Ok (Some (v, n')).
Proof. exact stable_refuted. Qed.
Print Assumptions C20_stable_until_next_refuted.

(* the reported transition is strictly ahead and at the latest the next midnight *)
Theorem C20_next_ahead : forall c d t v n, valid_date d -> wf_sched c d -> valid_time t ->
  eval c d t = Ok (Some (v, n)) -> t4_lt t n = true /\ t4_le n next_day = true.
Proof. exact eval_next_ahead. Qed.
Print Assumptions C20_next_ahead.

(* one timer firing (process_task, FIXED code: commit "fix: schedule interpreter keeps its timer
   running outside the effective period"): never raises, shows the prescribed value inside the
   effective period, keeps the old one outside, and re-arms strictly later the same day or at the
   next midnight.  good_sched: entry times valid with whole seconds *)
Theorem C20_step_rearms : forall c d t pv, valid_date d -> valid_time t -> wf_sched c d -> good_sched c ->
  exists pv' d' t', step c d t pv = Ok (pv', (d', t')) /\
    ((d' = d /\ t4_lt t t' = true /\ valid_time t') \/ (d' = next_date d /\ t' = (0, 0, 0, 0))) /\
    (in_effect c d -> spec_value c d t pv') /\ (~ in_effect c d -> pv' = pv).
Proof. exact step_rearms. Qed.
Print Assumptions C20_step_rearms.

(* the instant the timer is armed for reads, on the (constant-offset) wall clock, exactly the
   reported transition — or 00:00:00 of the next day for the end-of-day marker 24:00.  This is the
   constant-offset instance of ScheduleSpec.dtt_requirement; for zones whose offset changes the
   requirement is checked on the implementation (time.mktime is trusted CPython, not modelled) *)
Theorem C20_arm_reading : forall d n, arm_ok n ->
  has255 n = false /\
  ((n = next_day /\ normalise d n = (next_date d, (0, 0, 0, 0))) \/ (n <> next_day /\ normalise d n = (d, n))).
Proof. exact normalise_arm. Qed.
Print Assumptions C20_arm_reading.

(* the timer-driven life: any number of firings, across days and across the edges of the effective
   period, none fails and each re-arms (dates stay within 1900..2154) *)
Theorem C20_runs_across_days : forall fuel c d t pv,
  (forall k, (k <= fuel)%nat -> valid_date (nth_date k d) /\ wf_sched c (nth_date k d)) ->
  valid_time t -> good_sched c ->
  length (run fuel c d t pv) = fuel /\ Forall (fun r => exists x, r = Ok x) (run fuel c d t pv).
Proof. exact run_across_days. Qed.
Print Assumptions C20_runs_across_days.

(* the calendar: successor of a valid date is valid *)
Theorem C20_next_date_valid : forall d, valid_date d ->
  (let '(y, m, dd, _) := d in (y, m, dd) <> (254, 12, 31)) -> valid_date (next_date d).
Proof. exact next_date_valid. Qed.
Print Assumptions C20_next_date_valid.

(* ---- the wall clock in zones whose UTC offset changes (daylight saving): ScheduleTz models
   Date.now/Time.now (localtime_z) and datetime_to_time = time.mktime(..., isdst=-1) (datetime_to_time_z)
   for ANY offset function that takes two values; tied to CPython/libc by the `now-z`, `dtt-z`, `run-z`,
   `civil` correspondence cases under POSIX DST rules.  This generalises C20_arm_reading (constant offset). *)

(* datetime_to_time applied to the local reading of any instant of 1900..2154 returns an instant with
   exactly that local reading: ScheduleSpec.dtt_requirement for every two-offset zone *)
Theorem C20_arm_reading_any_zone : forall off o1 o2 e, two_offsets off o1 o2 -> in_years off e ->
  exists a, datetime_to_time_z off o1 o2 (fst (localtime_z off e)) (snd (localtime_z off e)) = Ok a /\
            localtime_z off a = localtime_z off e.
Proof. exact dtt_reads_back. Qed.
Print Assumptions C20_arm_reading_any_zone.

(* one firing of process_task at any instant in any two-offset zone: never raises, shows the value
   prescribed for the LOCAL date and time, and arms the timer for the instant whose local wall clock
   is the reported transition (whenever an instant with that reading exists; strictly later when the
   offset is the same at both instants) *)
Theorem C20_step_any_zone : forall off o1 o2 c e pv, two_offsets off o1 o2 -> in_years off e ->
  wf_sched c (fst (localtime_z off e)) -> good_sched c ->
  exists pv' a n, let d := fst (localtime_z off e) in let t := snd (localtime_z off e) in
    step_z off o1 o2 c e pv = Ok (pv', a) /\
    (in_effect c d -> spec_value c d t pv') /\ (~ in_effect c d -> pv' = pv) /\
    t4_lt t n = true /\ arm_ok n /\ a = mktime_z off o1 o2 (wall_of d n) /\
    ((exists e', wall off e' = wall_of d n) -> wall off a = wall_of d n) /\
    (wall off a = wall_of d n -> off a = off e -> e < a).
Proof. exact step_z_rearms. Qed.
Print Assumptions C20_step_any_zone.

(* the calendar behind it, swept over all 93137 days of 1900-01-01..2154-12-31: day numbers and civil
   dates are inverse, every day number is a valid BACnet date, consecutive day numbers are successor dates *)
Theorem C20_day_numbers : forall z, day_in_range z ->
  valid_date (date_of_days z) /\ date_of_days (z + 1) = next_date (date_of_days z) /\
  (let '(y, m, d) := civil_from_days z in days_from_civil y m d = z).
Proof.
  intros z H. split; [now apply date_of_days_valid|]. split; [now apply date_of_days_next | now apply civil_roundtrip].
Qed.
Print Assumptions C20_day_numbers.

(* a conversion through the STANDARD offset only (calendar.timegm(tuple) + time.timezone) does not meet
   the requirement: witness EST5EDT, 2024-07-01 08:00:00 local is converted to an instant reading 09:00:00 *)
Theorem C20_arm_std_offset_only_refuted : exists off o1 o2 e, two_offsets off o1 o2 /\ in_years off e /\
  localtime_z off (dtt_std_only o1 (fst (localtime_z off e)) (snd (localtime_z off e))) <> localtime_z off e.
Proof. exact dtt_std_only_refuted. Qed.
Print Assumptions C20_arm_std_offset_only_refuted.

(* non-vacuity: the zone EST5EDT of 2024 has two offsets; summer reading, skipped hour (02:30 -> 03:30 EDT),
   repeated hour (01:30 -> the daylight reading), 24:00 -> next local midnight *)
Example C20_zone_example :
  two_offsets est5edt_2024 (-18000) (-14400) /\ in_years est5edt_2024 1719835200 /\
  localtime_z est5edt_2024 1719835200 = ((124, 7, 1, 1), (8, 0, 0, 0)) /\
  datetime_to_time_z est5edt_2024 (-18000) (-14400) (124, 7, 1, 1) (17, 0, 0, 0) = Ok 1719867600 /\
  localtime_z est5edt_2024 1719867600 = ((124, 7, 1, 1), (17, 0, 0, 0)) /\
  step_z est5edt_2024 (-18000) (-14400) ex_sched 1719835200 99 = Ok (3, 1719867600).
Proof.
  split; [exact est5edt_2024_two|]. split; [unfold in_years, day_in_range, day_lo, day_hi; vm_compute; split; discriminate|].
  vm_compute. repeat split; reflexivity.
Qed.

(* non-vacuity: a concrete schedule (week-and-day exception, calendar reference with an
   odd-month-last-day pattern and a range, weekly list, open-ended effective period) meets
   wf_sched / good_sched on every date, and evaluates as prescribed *)
Example C20_wf_example : (forall d, wf_sched ex_sched d) /\ good_sched ex_sched.
Proof. split; [exact ex_sched_wf | exact ex_sched_good]. Qed.
Example C20_eval_example :
  valid_date (120, 1, 27, 1) /\                                    (* Monday 2020-01-27: last Monday *)
  eval ex_sched (120, 1, 27, 1) (7, 30, 0, 0) = Ok (Some (7, (12, 0, 0, 0))) /\
  eval ex_sched (120, 1, 27, 1) (12, 0, 0, 0) = Ok (Some (5, (24, 0, 0, 0))) /\
  eval ex_sched (120, 2, 3, 1) (9, 0, 0, 0) = Ok (Some (3, (17, 0, 0, 0))) /\
  eval ex_sched (119, 12, 31, 2) (9, 0, 0, 0) = Ok None /\
  canon_run (run 3 ex_sched (119, 12, 31, 2) (9, 0, 0, 0) 99) =
    [0; 99; 120; 1; 1; 3; 0; 0; 0; 0;  0; 5; 120; 1; 2; 4; 0; 0; 0; 0;  0; 5; 120; 1; 3; 5; 0; 0; 0; 0].
Proof. split; [apply valid_dateb_spec; vm_compute; reflexivity|]. vm_compute. repeat split; reflexivity. Qed.
Example C20_denotes_example :
  date_denotes (255, 13, 32, 255) (120, 1, 31, 5) /\ wnd_denotes (255, 6, 1) (120, 1, 27, 1) /\
  range_denotes ((255, 255, 255, 255), (120, 6, 30, 255)) (120, 1, 27, 1).
Proof.
  unfold date_denotes, wnd_denotes, range_denotes, year_denotes, month_denotes, day_denotes, dow_denotes,
    week_denotes, unspecified, ordinal. cbn. repeat split; auto; try lia.
  all: try (right; left; split; reflexivity).
  all: try (right; right; split; [lia | vm_compute; split; discriminate]).
Qed.
