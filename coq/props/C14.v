(* C14 — placeholder while the correspondence is brought up *)
From Bac Require Import Base Deferred Sched.
