(* C14 — Scheduled work runs once, in order, never early; failures stay isolated.
   Property theorems only; models in Bac.Sched / Bac.Deferred, proofs in Bac.SchedFacts,
   Bac.SchedThms, Bac.SchedOrder, Bac.SchedC14, Bac.DeferredFacts.

   Vocabulary: `run_ops guard jit c st0 ops = (s, ev)` — the history `ops` (install at t / after d /
   re-install / suspend / resume / advance / poll / defer / run_once / run) executed from the empty
   TaskManager gives state s and event trace ev; `reachable` = s is such a state.  An entry
   is (due time, TaskManager counter at installation, task).  `fired ev` = the entries fired in ev,
   in order.  guard = true is the tree with the per-call guard in the deferred loop (the fix:
   commit); jit is the 1 us jitter of RecurringTask in clock ticks.
   Callbacks (of tasks and of deferred functions) may defer functions AND perform scheduling
   actions (install / re-install / suspend / resume of themselves or of other tasks).
   `passive_cfg c` / `passive_dq s`: no callback of the configuration / of the queued deferred
   functions has a scheduling action.  Ghost events: `EvPop e rest` (e popped, rest stayed queued),
   `EvInst i auto` (install_task succeeded for i; auto = re-install of a recurring task by process_task). *)
From Bac Require Import Base Deferred DeferredFacts Sched SchedFacts SchedThms SchedPassive SchedOrder SchedRun SchedC14 SchedIv SchedIvFacts DeferredExn DeferredExnFacts.
From Coq Require Import Permutation Sorted.
Open Scope Z_scope.

(* callbacks without scheduling actions: within one run_once pass or one core.run the firings are
   strictly increasing in (due, install counter) *)
Theorem C14_fire_order : forall guard jit c s s' ev, passive_cfg c -> passive_dq s -> 0 <= jit -> reachable guard jit c s ->
  (run_once guard jit c s = (s', ev) \/ run guard jit c s = (s', ev)) ->
  StronglySorted key_lt (fired ev) /\ forall k, In k (fired ev) -> e_when k <= now s.
Proof. exact c14_fire_order. Qed.
Print Assumptions C14_fire_order.

(* any program (callbacks may install / suspend anything): at every firing of every history the
   entry fired is smaller in (due, install counter) than every entry that stayed queued *)
Theorem C14_fire_least_pending : forall guard jit c ops s ev, run_ops guard jit c st0 ops = (s, ev) ->
  forall e rest, In (EvPop e rest) ev -> forall y, In y rest -> key_lt e y.
Proof. exact c14_fire_least_pending. Qed.
Print Assumptions C14_fire_least_pending.

(* whatever get_next_task hands out is the least of the queue *)
Theorem C14_fire_is_min : forall guard jit c s e s1 z, reachable guard jit c s ->
  get_next_task s = (Some e, s1, z) -> forall x, In x (heap s1) -> key_lt e x.
Proof. exact c14_fire_is_min. Qed.
Print Assumptions C14_fire_is_min.

Theorem C14_never_early : forall guard jit c ops s ev, run_ops guard jit c st0 ops = (s, ev) ->
  forall i due n at_, In (EvFire i due n at_) ev -> due <= at_.
Proof. exact c14_never_early. Qed.
Print Assumptions C14_never_early.

(* every firing consumes a distinct installation (counter value) *)
Theorem C14_once_per_install : forall guard jit c ops s ev, run_ops guard jit c st0 ops = (s, ev) ->
  NoDup (map e_seq (fired ev)).
Proof. exact c14_once_per_install. Qed.
Print Assumptions C14_once_per_install.

(* "does not fire after being suspended" is false of the code when the suspend comes from the
   task's own callback: process_task re-installs a recurring task unconditionally.  Witness: a
   recurring task whose callback suspends itself fires at slot 10 and again at slot 20; between
   the two firings the only installation recorded is the automatic one.  (finding
   C14-recurring-self-suspend-rearmed) *)
Theorem C14_suspend_cancels_refuted :
  exists ops a b d due n at_ due' n' at',
    t_acts (cfg_get self_suspender 0) = [ASuspend 0] /\
    snd (run_ops true 1 self_suspender st0 ops) = a ++ EvFire 0 due n at_ :: b ++ EvFire 0 due' n' at' :: d /\
    forallb (fun x => negb (is_inst 0 x) || match x with EvInst _ auto => auto | _ => false end) b = true.
Proof. exact c14_self_suspend_refuted. Qed.
Print Assumptions C14_suspend_cancels_refuted.

(* _partial: after suspend, in any continuation by any program, the task does not fire unless an
   installation of it (by the history, by a callback, or the automatic one) is recorded *)
Theorem C14_suspend_cancels_partial : forall guard jit c s i ops s' ev, reachable guard jit c s ->
  run_ops guard jit c s (Suspend i :: ops) = (s', ev) ->
  has_inst i ev = false -> forall due n at_, ~ In (EvFire i due n at_) ev.
Proof. exact c14_suspend_cancels. Qed.
Print Assumptions C14_suspend_cancels_partial.

(* at most one queue entry per task; installing leaves exactly the new one *)
Theorem C14_reinstall_moves : forall guard jit c s, reachable guard jit c s ->
  NoDup (map e_tid (heap s)) /\
  forall i t s', do_install_when c s i t = Ok s' ->
    In (t, ctr s, i) (heap s') /\ (forall x, In x (heap s') -> e_tid x = i -> x = (t, ctr s, i)) /\
    (forall x, e_tid x <> i -> (In x (heap s') <-> In x (heap s))) /\
    length (heap s') = (if sched s i then length (heap s) else S (length (heap s))).
Proof. exact c14_reinstall_moves. Qed.
Print Assumptions C14_reinstall_moves.

(* _partial: exact (integer/rational) arithmetic only.  Missing: the binary64 evaluation of
   (now - off) + iv - ((now - off) % iv) + off in RecurringTask.install_task is not modelled (no
   fmod on Coq's primitive floats); the correspondence compares slot indices on the grid. *)
Theorem C14_recurring_slots_partial : forall jit iv off, 0 < iv -> 0 <= jit ->
  (forall t, exists k, next_slot jit iv off t = off + iv * k /\ t + jit < off + iv * k /\
                       (forall m, t + jit < off + iv * m -> k <= m) /\ t < next_slot jit iv off t) /\
  (jit < iv -> forall k, next_slot jit iv off (off + iv * k) = off + iv * (k + 1)) /\
  (forall k t, off + iv * k <= t + jit < off + iv * (k + 1) -> next_slot jit iv off t = off + iv * (k + 1)) /\
  (forall guard c s e s1 z s2 ev r, passive_cfg c -> passive_dq s -> reachable guard jit c s -> get_next_task s = (Some e, s1, z) ->
     process_task jit c s1 e = (s2, ev, r) -> t_kind (cfg_get c (e_tid e)) = Recurring iv off ->
     t_raises (cfg_get c (e_tid e)) = false ->
     In (next_slot jit iv off (now s), ctr s, e_tid e) (heap s2)).
Proof. exact c14_recurring_slots. Qed.
Print Assumptions C14_recurring_slots_partial.

(* with the guard: the loop ends with an empty queue; the calls L satisfy
   L = q ++ (what the calls of L submitted, in call order), i.e. call order = submission order;
   L is a permutation of everything ever handed to the queue (each exactly once) *)
Theorem C14_deferred_once_in_order : forall q,
  exists L, drain_all true q = (L, [], DDone) /\ L = q ++ flat_map d_spawns L /\ Permutation L (f_all q)
            /\ (NoDup (map d_id (f_all q)) -> NoDup (map d_id L)).
Proof. exact c14_deferred_once_in_order. Qed.
Print Assumptions C14_deferred_once_in_order.

(* the loop of the model, whatever the callbacks do to the schedule: ends with an empty queue and
   calls, in order, exactly the functions the pure loop above calls *)
Theorem C14_deferred_loop_calls : forall jit c s s' ev x, do_drain true jit c s = (s', ev, x) ->
  exists L, drain_all true (dq s) = (L, [], DDone) /\ x = false /\ dq s' = [] /\ calls_of ev = map d_id L.
Proof. exact c14_deferred_loop_calls. Qed.
Print Assumptions C14_deferred_loop_calls.

(* the pinned tree (no per-call guard): [raising; plain] — plain is neither called nor queued *)
Theorem C14_deferred_unguarded_refuted :
  exists q d, In d q /\ (let '(c, r, s) := drain_all false q in ~ In d c /\ ~ In d r /\ s = DRaised).
Proof. exact drain_unguarded_loses. Qed.
Print Assumptions C14_deferred_unguarded_refuted.

(* ... and behaves like the guarded loop when no (transitive) member raises *)
Theorem C14_deferred_unguarded_partial : forall fuel q,
  forallb (fun d => negb (d_raises d)) (f_all q) = true -> drain false fuel q = drain true fuel q.
Proof. exact c14_deferred_unguarded_partial. Qed.
Print Assumptions C14_deferred_unguarded_partial.

Theorem C14_task_exception_isolated : forall jit c s, passive_cfg c -> passive_dq s -> 0 <= jit -> reachable true jit c s ->
  (forall e s1, t_raises (cfg_get c (e_tid e)) = true ->
     process_task jit c s1 e = (set_dq s1 (dq s1 ++ t_defers (cfg_get c (e_tid e))), [fire_of s1 e], true)) /\
  (forall s' ev, run_once true jit c s = (s', ev) -> forall x, In x (heap s) -> In x (heap s') \/ In x (fired ev)) /\
  (forall s' ev, run_once true jit c s = (s', ev) ->
     ~ In (EvErr OutOfFuel) ev /\
     (due_count s' = 0%nat \/ (In EvRaise ev /\ (due_count s' < due_count s)%nat))) /\
  (forall s' ev, run_ops true jit c s (repeat RunOnce (S (due_count s))) = (s', ev) ->
     forall x, In x (heap s) -> e_when x <= now s -> In x (fired ev)).
Proof. exact c14_task_exception_isolated. Qed.
Print Assumptions C14_task_exception_isolated.

(* core.run (spin 0, no sockets): ends within its fuel with nothing due and nothing deferred; every
   entry that was due has fired, whichever callbacks raised *)
Theorem C14_run_fires_all_due : forall jit c s s' ev, passive_cfg c -> passive_dq s -> 0 <= jit -> reachable true jit c s ->
  run true jit c s = (s', ev) ->
  ~ In (EvErr OutOfFuel) ev /\ dq s' = [] /\ due_count s' = 0%nat /\
  forall x, In x (heap s) -> e_when x <= now s -> In x (fired ev).
Proof. exact c14_run_fires_all_due. Qed.
Print Assumptions C14_run_fires_all_due.

(* ---- non-vacuity ---- *)
Definition ex_cfg : cfg :=
  [mkT OneShot false [] []; mkT OneShot true [DF 7 true [] []; DF 8 false [] []] []; mkT OneShot false [] [];
   mkT (Recurring 300000 1000) false [] []].
Definition ex_ops : list op :=
  [Install 2 5; Install 0 5; Install 1 5; Reinstall 3; Install 2 5; Suspend 0; Resume 0; Advance 5].
Definition visible (ev : list event) : list event := filter (fun x => negb (is_ghost x)) ev.

Example C14_ex_passive : passive_cfg ex_cfg.
Proof. intros i. do 5 (destruct i as [|i]; [split; reflexivity|]). split; destruct i; reflexivity. Qed.
(* a reachable state with three colliding due entries (one of them raising) and a recurring one *)
Example C14_ex_reachable : reachable true 3 ex_cfg (fst (run_ops true 3 ex_cfg st0 ex_ops)).
Proof. exists ex_ops, (snd (run_ops true 3 ex_cfg st0 ex_ops)). apply surjective_pairing. Qed.
Example C14_ex_due : due_count (fst (run_ops true 3 ex_cfg st0 ex_ops)) = 3%nat
                     /\ passive_dq (fst (run_ops true 3 ex_cfg st0 ex_ops)).
Proof. vm_compute. split; reflexivity. Qed.
(* first pass: task 1 (installed 3rd, counter 2) fires first, raises, the pass ends; second pass:
   its deferred functions 7 (raising) and 8 run, then tasks 2 (counter 4) and 0 (re-installed by
   resume, counter 5) in that order *)
Example C14_ex_passes :
  visible (snd (run_ops true 3 ex_cfg st0 (ex_ops ++ [RunOnce; RunOnce])))
  = [EvFire 1 5 2 5; EvRaise; EvFire 2 5 4 5; EvCall 7; EvRaise; EvCall 8; EvFire 0 5 5 5].
Proof. vm_compute. reflexivity. Qed.
(* core.run from the same state: every try is per iteration, so all three fire in one call *)
Example C14_ex_run :
  visible (snd (run_ops true 3 ex_cfg st0 (ex_ops ++ [Run])))
  = [EvFire 1 5 2 5; EvRaise; EvFire 2 5 4 5; EvCall 7; EvRaise; EvCall 8; EvFire 0 5 5 5].
Proof. vm_compute. reflexivity. Qed.
Example C14_ex_recurring :
  heap (fst (run_ops true 3 ex_cfg st0 [Reinstall 3; ToDue; Poll; ToDue; Poll]))
  = [(601000, 2%N, 3%nat)].
Proof. vm_compute. reflexivity. Qed.
(* callbacks with actions: task 0 installs task 1 at an earlier time than its own; task 1's deferred
   function re-installs task 0; the trace shows the pops with what stayed queued *)
Example C14_ex_actions :
  snd (run_ops true 1 [mkT OneShot false [] [AInstall 1 2]; mkT OneShot false [DF 0 false [] [AInstallAfter 0 1]] []] st0
         [Install 0 5; Advance 5; RunOnce; RunOnce])
  = [EvInst 0 false; EvPop (5, 0%N, 0%nat) []; EvFire 0 5 0 5; EvInst 1 false;
     EvPop (2, 1%N, 1%nat) []; EvFire 1 2 1 5; EvCall 0; EvInst 0 false].
Proof. vm_compute. reflexivity. Qed.
(* the hypothesis of C14_suspend_cancels_partial is satisfiable: no installation of task 0 below *)
Example C14_ex_suspend_hyp :
  has_inst 0 (snd (run_ops true 1 [mkT OneShot false [] []; mkT OneShot false [] [ASuspend 0]]
                     (fst (run_ops true 1 [mkT OneShot false [] []; mkT OneShot false [] [ASuspend 0]] st0 [Install 0 3; Install 1 3]))
                     [Suspend 0; Advance 9; RunOnce])) = false.
Proof. vm_compute. reflexivity. Qed.
Example C14_ex_deferred :
  drain_all true [DF 0 true [DF 2 false [] []] []; DF 1 false [DF 3 true [] []] [ASuspend 0]]
  = ([DF 0 true [DF 2 false [] []] []; DF 1 false [DF 3 true [] []] [ASuspend 0]; DF 2 false [] []; DF 3 true [] []], [], DDone).
Proof. vm_compute. reflexivity. Qed.

(* ---- round 4: exception values, interval / offset of a recurring task as attributes ---- *)

(* the drain loop with exception VALUES and kinds of callable (DeferredExn.v), handler of the tree
   (`h_code`: hands `err` to the logger, looks at neither err.args nor fn): for every batch, whatever
   each member raises (no arguments, several, unprintable, any class) and whatever callable it is,
   every function handed over is called once, in submission order, and the queue ends empty *)
Theorem C14_exception_values_isolated : forall q,
  exists L, xdrain_all h_code q = (L, [], DDone) /\
            map xerase L = map xerase q ++ flat_map d_spawns (map xerase L) /\
            Permutation (map xerase L) (f_all (map xerase q)).
Proof. exact c14_exception_values_isolated. Qed.
Print Assumptions C14_exception_values_isolated.

(* ... and that is exactly the handlers that never raise: a handler that raises on some (callable,
   exception value) loses a function of a batch of two *)
Theorem C14_isolation_iff_handler_total : forall h : handler,
  (forall k e, h k e = false) <-> (forall q, exists L, xdrain_all h q = (L, [], DDone)).
Proof. exact isolation_iff_handler_total. Qed.
Print Assumptions C14_isolation_iff_handler_total.

Theorem C14_handler_raises_refuted : forall (h : handler) k e, h k e = true ->
  exists q d, In d q /\ (let '(c, r, s) := xdrain_all h q in ~ In d c /\ ~ In d r /\ s = DRaised).
Proof. exact handler_must_be_total. Qed.
Print Assumptions C14_handler_raises_refuted.

(* RecurringTask.taskInterval / taskIntervalOffset as attributes (SchedIv.v).  After ANY history — any
   operations of Sched.v (suspend, resume, install_task(), firings, raising or scheduling callbacks) and any
   install_task(interval=, offset=) calls, refused or not — the attributes are those of `attrs_after`
   (the last value handed over, else the constructor's), and install_task(interval=, offset=) then either
   is refused (interval in force unset / <= 0; schedule untouched) or leaves the task's entry at the
   least slot of the interval / offset IN FORCE strictly after now *)
Theorem C14_recurring_interval_in_force : forall guard jit c ctor ops m s ev i oiv ooff m' s' ev',
  0 <= jit -> is_rec c i = true ->
  run_ops2 guard jit c (attrs0 ctor, st0) ops = ((m, s), ev) ->
  step2 guard jit c (m, s) (InstallIv i oiv ooff) = ((m', s'), ev') ->
  m = attrs_after c (attrs0 ctor) ops /\
  m' = set_attrs m i oiv ooff /\
  (if iv_force m' i <=? 0 then s' = s /\ ev' = [EvErr RuntimeErr]
   else let t := next_slot jit (iv_force m' i) (off_force m' i) (now s) in
        ttime s' i = Some t /\ In (t, ctr s, i) (heap s') /\ ev' = [EvInst i false] /\
        now s < t /\ (t - off_force m' i) mod (iv_force m' i) = 0).
Proof. exact c14_recurring_interval_in_force. Qed.
Print Assumptions C14_recurring_interval_in_force.

(* the attributes of task i after a history ending in calls that are not install_task(interval=, offset=)
   of task i: the last values handed over *)
Theorem C14_recurring_attrs_last : forall c i pre oiv ooff post m, is_rec c i = true ->
  (forall j a b, In (InstallIv j a b) post -> j <> i) ->
  attrs_after c m (pre ++ InstallIv i oiv ooff :: post) i =
    (merge oiv (fst (attrs_after c m pre i)), merge ooff (snd (attrs_after c m pre i))).
Proof. exact attrs_after_last. Qed.
Print Assumptions C14_recurring_attrs_last.

(* install_task() (history operation, callback action, automatic re-install): slot of the attributes in force.
   _partial: stated per installation; the trace-level form (every EvFire of a recurring task lies on the grid in
   force when its entry was queued, through callbacks and both loops) is not proved — it needs the generic
   preservation principle of SchedFacts.v with an install hypothesis that knows the time being set *)
Theorem C14_recurring_reinstall_in_force_partial : forall jit c m s i s', is_rec c i = true ->
  do_reinstall jit (eff c m) s i = Ok s' ->
  0 < iv_force m i /\ ttime s' i = Some (next_slot jit (iv_force m i) (off_force m i) (now s)).
Proof. exact reinstall_uses_in_force. Qed.
Print Assumptions C14_recurring_reinstall_in_force_partial.

(* constructed with 0.1 s, installed with 0.25 s + 20 ms, suspended, installed again with the offset reset to 0
   (1 tick = 1/3 us): slots 0.02 s, 0.27 s, then 0.5 s (next: 0.75 s); the attributes end as (0.25 s, 0) *)
Example C14_ex_interval_in_force :
  canon_run2 1 (run_ops2 true 3 [mkT (Recurring 300000 0) false [] []] (attrs0 [(Some 300000, None)], st0)
     [Plain (Advance 777); InstallIv 0 (Some 750000) (Some 60000); Plain ToDue; Plain Poll; Plain ToDue; Plain Poll;
      Plain (Suspend 0); InstallIv 0 None (Some 0); Plain ToDue; Plain Poll])
  = [3; 1; 0; 60000; 60000; 1; 0; 810000; 810000; 1; 0; 1500000; 1500000;
     1; 2250000; 4; 0; 5; 1500000; 1; 1; 2250000; 0; 1; 750000; 1; 0].
Proof. vm_compute. reflexivity. Qed.
Example C14_ex_exception_values :
  xdrain_all h_code [XF 0 KPartial (Some (mkExn 1 [] true)) [XF 2 KCallable (Some (mkExn 2 [7; 8] false)) [] []] []; XF 1 KFunction None [] []]
  = ([XF 0 KPartial (Some (mkExn 1 [] true)) [XF 2 KCallable (Some (mkExn 2 [7; 8] false)) [] []] []; XF 1 KFunction None [] [];
      XF 2 KCallable (Some (mkExn 2 [7; 8] false)) [] []], [], DDone)
  /\ h_first_arg KFunction (mkExn 0 [] true) = true /\ h_fn_name KPartial (mkExn 0 [1] true) = true.
Proof. vm_compute. repeat split. Qed.
