(* C19 — routing knowledge stays coherent: one next hop per destination, newest wins.
   Property theorems only; the model is Bac.RouterCache (netservice.RouterInfoCache with the four
   fix: commits of this property), proofs live in Bac.RouterCacheFacts.

   Coherent s  :=  (get_router_info s sn d = Some a  <->  router (sn, a) is filed and credited with d)
                   /\ every filed router's source network is a key of self.routers.
   "At most one next hop per (snet, dnet)" is the functionality of the lookup together with
   C19_one_next_hop. *)
From Bac Require Import Base RouterCache RouterCacheFacts RouterCacheRenum RouterCacheSweep RouterNode RouterNodeFacts.
Open Scope Z_scope.

Theorem C19_init : Coherent empty.
Proof. exact coherent_empty. Qed.
Print Assumptions C19_init.

(* every destination credited to a router can be looked up and leads to that router; nothing else can *)
Theorem C19_lookup_sound_complete : forall s sn d a, Coherent s ->
  (get_router_info s sn d = Some a <-> credited s sn a d).
Proof. intros s sn d a H. exact (proj1 H sn d a). Qed.
Print Assumptions C19_lookup_sound_complete.

Theorem C19_one_next_hop : forall s sn a b d, Coherent s ->
  credited s sn a d -> credited s sn b d -> a = b.
Proof. exact one_next_hop. Qed.
Print Assumptions C19_one_next_hop.

(* an announcement never fails on a coherent cache and leaves it coherent *)
Theorem C19_update_preserves : forall s sn a ds st, Coherent s ->
  exists s', update_router_info s sn a ds st = Ok s' /\ Coherent s'.
Proof. intros s sn a ds st H. destruct (update_ok s sn a ds st H) as [s' [H1 [H2 _]]]. eauto. Qed.
Print Assumptions C19_update_preserves.

(* newest wins, and nothing else moves: one equation for every lookup afterwards *)
Theorem C19_update_newest_wins : forall s sn a ds st s', Coherent s ->
  update_router_info s sn a ds st = Ok s' ->
  forall sn0 d0, get_router_info s' sn0 d0 =
    if (sn0 =? sn) && zmem d0 ds then Some a else get_router_info s sn0 d0.
Proof.
  intros s sn a ds st s' H E. destruct (update_ok s sn a ds st H) as [s'' [H1 [_ H3]]].
  assert (s'' = s') by congruence. subst. exact H3.
Qed.
Print Assumptions C19_update_newest_wins.

Theorem C19_status_preserves : forall s sn a st, Coherent s ->
  Coherent (update_router_status s sn a st) /\
  forall sn0 d0, get_router_info (update_router_status s sn a st) sn0 d0 = get_router_info s sn0 d0.
Proof. exact status_ok. Qed.
Print Assumptions C19_status_preserves.

(* forgetting a router (delete_router_info(snet, address) or with an empty list) removes exactly
   the destinations it was credited with and the record itself; all else is kept *)
Theorem C19_forget_router : forall s sn a dso, Coherent s -> (dso = None \/ dso = Some []) ->
  exists s', delete_router_info s sn (Some a) dso = Ok s' /\ Coherent s' /\
    (forall sn0 d0, get_router_info s' sn0 d0 =
       match get_router_info s sn0 d0 with
       | Some x => if (sn0 =? sn) && (x =? a) then None else Some x
       | None => None
       end) /\
    rget s' sn a = None /\
    (forall sn0 a0, (sn0, a0) <> (sn, a) -> rget s' sn0 a0 = rget s sn0 a0).
Proof. exact forget_router. Qed.
Print Assumptions C19_forget_router.

(* forgetting destinations of one router removes those it holds, never another router's *)
Theorem C19_forget_router_dnets : forall s sn a d r, Coherent s ->
  exists s', delete_router_info s sn (Some a) (Some (d :: r)) = Ok s' /\ Coherent s' /\
    (forall sn0 d0, get_router_info s' sn0 d0 =
       if (sn0 =? sn) && zmem d0 (d :: r) &&
          match get_router_info s sn0 d0 with Some x => x =? a | None => false end
       then None else get_router_info s sn0 d0) /\
    (forall sn0 a0, (sn0, a0) <> (sn, a) -> rget s' sn0 a0 = rget s sn0 a0).
Proof. exact forget_router_dnets. Qed.
Print Assumptions C19_forget_router_dnets.

(* forgetting destinations whoever serves them (no NameError any more) *)
Theorem C19_forget_dnets : forall s sn ds, Coherent s ->
  exists s', delete_router_info s sn None (Some ds) = Ok s' /\ Coherent s' /\
    (forall sn0 d0, get_router_info s' sn0 d0 =
       if (sn0 =? sn) && zmem d0 ds then None else get_router_info s sn0 d0).
Proof. exact forget_dnets. Qed.
Print Assumptions C19_forget_dnets.

Theorem C19_forget_neither_refused : forall s sn, delete_router_info s sn None None = Err RuntimeErr.
Proof. exact forget_neither. Qed.
Print Assumptions C19_forget_neither_refused.

(* The model keeps Python dicts as association lists; WF says no key occurs twice in `routers` or in
   any record's `dnets` (a dict cannot), Inv s := Coherent s /\ WF s.  Both hold initially and are
   re-established by every operation (C19_history_invariant). *)

(* renumbering a source network under which something is filed: never an exception, the invariant
   is kept, exactly the old network's lookups and records move to the new number (replacing whatever
   was filed there), every other network is untouched *)
Theorem C19_renumber : forall s old new, Inv s -> zmem old (nets s) = true ->
  exists s', update_source_network s old new = Ok s' /\ Inv s' /\
    (forall sn0 d0, get_router_info s' sn0 d0 =
       if sn0 =? new then get_router_info s old d0
       else if sn0 =? old then None else get_router_info s sn0 d0) /\
    (forall sn0 a0, rget s' sn0 a0 =
       if sn0 =? new then rget s old a0 else if sn0 =? old then None else rget s sn0 a0).
Proof. exact renumber_ok. Qed.
Print Assumptions C19_renumber.

(* ... and with nothing filed under the old number it changes nothing *)
Theorem C19_renumber_unknown : forall s old new, zmem old (nets s) = false ->
  update_source_network s old new = Ok s.
Proof. exact renumber_unknown. Qed.
Print Assumptions C19_renumber_unknown.

(* the boolean coherence test (used by tests) implies the invariant's first half *)
Theorem C19_coherence_test_sound : forall s, coh_b s = true -> Coherent s.
Proof. exact coh_b_sound. Qed.
Print Assumptions C19_coherence_test_sound.

(* histories of ANY length over {learn, status, all forms of forget, renumber}: the invariant holds
   throughout, hence the cache is coherent *)
Theorem C19_history_invariant : forall h, Inv (run empty h).
Proof. exact history_inv. Qed.
Print Assumptions C19_history_invariant.

Theorem C19_history_coherent : forall h, Coherent (run empty h).
Proof. intros h. exact (proj1 (history_inv h)). Qed.
Print Assumptions C19_history_coherent.

(* every operation after any history succeeds or is the refused delete_router_info(snet) *)
Theorem C19_history_no_exception : forall h o,
  (exists s', step (run empty h) o = Ok s' /\ Inv s') \/
  (refused o /\ step (run empty h) o = Err RuntimeErr).
Proof. intros h o. exact (step_inv _ o (history_inv h)). Qed.
Print Assumptions C19_history_no_exception.

(* after any history the newest announcement decides, and only for its destinations *)
Theorem C19_history_newest_wins : forall h sn a ds st d, In d ds ->
  get_router_info (run empty (h ++ [Learn sn a ds st])) sn d = Some a.
Proof. exact history_newest_wins_all. Qed.
Print Assumptions C19_history_newest_wins.

Theorem C19_history_frame : forall h sn a ds st sn0 d0, (sn0 <> sn \/ ~ In d0 ds) ->
  get_router_info (run empty (h ++ [Learn sn a ds st])) sn0 d0 = get_router_info (run empty h) sn0 d0.
Proof. exact history_frame_all. Qed.
Print Assumptions C19_history_frame.

(* after any history a renumbering moves exactly the old network's lookups *)
Theorem C19_history_renumber : forall h old new sn0 d0,
  get_router_info (run empty (h ++ [Renum old new])) sn0 d0 =
    if zmem old (nets (run empty h))
    then (if sn0 =? new then get_router_info (run empty h) old d0
          else if sn0 =? old then None else get_router_info (run empty h) sn0 d0)
    else get_router_info (run empty h) sn0 d0.
Proof. exact history_renumber. Qed.
Print Assumptions C19_history_renumber.

(* learning does not depend on relaying: the I-Am-Router-To-Network handler records the announcement
   before it relays it, so whatever the other adapters' links do (relay_ok), after any history the
   announced destinations lead to the announcing router and nothing else changes; the exception flag
   (second component of on_iam) is the only thing relay_ok influences *)
Theorem C19_observed_is_learned : forall up s sn a ds,
  fst (on_iam up s sn a ds) = update_router_info s sn a ds 0.
Proof. exact on_iam_learns. Qed.
Print Assumptions C19_observed_is_learned.

Theorem C19_history_observed_is_learned : forall h up sn a ds,
  exists s', fst (on_iam up (run empty h) sn a ds) = Ok s' /\ Inv s' /\
    (forall sn0 d0, get_router_info s' sn0 d0 =
       if (sn0 =? sn) && zmem d0 ds then Some a else get_router_info (run empty h) sn0 d0).
Proof. exact on_iam_after_history. Qed.
Print Assumptions C19_history_observed_is_learned.

(* ---- the traffic a node EMITS follows its current knowledge (model RouterNode: the node's cache, its
   attached networks in look-up order, the application requests parked while no router is known) *)

(* an I-Am-Router-To-Network heard on net sn from router a listing ds: recorded (newest wins for every
   listed network, attached or remote, everything else unchanged); NO listed destination keeps parked
   requests, wherever it stands in the list and whether or not the other listed networks had any;
   every parked request for a listed destination is handed to a on sn; nothing else is released *)
Theorem C19_announcement_releases_pending : forall n sn a ds, Inv (ncache n) ->
  exists n', fst (node_iam n sn a ds) = Ok n' /\ Inv (ncache n') /\ nadapters n' = nadapters n /\
    (forall sn0 d0, get_router_info (ncache n') sn0 d0 =
       if (sn0 =? sn) && zmem d0 ds then Some a else get_router_info (ncache n) sn0 d0) /\
    (forall d, In d ds -> aget Z.eqb d (npending n') = None) /\
    (forall d tags t, In d ds -> aget Z.eqb d (npending n) = Some tags -> In t tags ->
       In (Send sn a d t None) (snd (node_iam n sn a ds))) /\
    (forall e, In e (snd (node_iam n sn a ds)) -> exists d t, e = Send sn a d t None /\ In d ds).
Proof. exact node_iam_ok. Qed.
Print Assumptions C19_announcement_releases_pending.

(* a request to a destination with nothing parked goes to the first attached network's router the cache
   names - and only there *)
Theorem C19_request_follows_knowledge : forall n d t sn x,
  aget Z.eqb d (npending n) = None -> route n d = Some (sn, x) ->
  node_req n d t = (n, [Send sn x d t None]) /\ In sn (nadapters n) /\ get_router_info (ncache n) sn d = Some x.
Proof.
  intros n d t sn x Hp Hr. split; [apply node_req_known; assumption|]. apply route_in_sound in Hr. exact Hr.
Qed.
Print Assumptions C19_request_follows_knowledge.

(* after an announcement heard on an attached network every later request for a listed destination
   leaves at once, towards a router the cache now names for it *)
Theorem C19_request_after_announcement : forall n sn a ds n' d t, Inv (ncache n) -> In sn (nadapters n) ->
  fst (node_iam n sn a ds) = Ok n' -> In d ds ->
  exists sn0 x, node_req n' d t = (n', [Send sn0 x d t None]) /\ In sn0 (nadapters n') /\
                get_router_info (ncache n') sn0 d = Some x.
Proof. exact req_after_iam. Qed.
Print Assumptions C19_request_after_announcement.

(* routed through-traffic to a remote network is handed to the router the look-up over ALL attached
   networks gives - the adapter it arrived on plays no part *)
Theorem C19_forward_follows_knowledge : forall n arr a snet d n' out sn x,
  node_fwd n arr a snet d = (Ok n', out) ->
  zmem snet (nadapters n) = false -> zmem d (nadapters n) = false -> (d =? arr) = false ->
  route n' d = Some (sn, x) -> out = [Send sn x d 0 (Some snet)].
Proof. exact node_fwd_known. Qed.
Print Assumptions C19_forward_follows_knowledge.

Theorem C19_forward_uses_router_on_arrival_network : forall n arr a snet d x, Inv (ncache n) -> In arr (nadapters n) ->
  zmem snet (nadapters n) = false -> zmem d (nadapters n) = false -> snet <> d ->
  get_router_info (ncache n) arr d = Some x ->
  (forall sn, In sn (nadapters n) -> sn <> arr -> get_router_info (ncache n) sn d = None) ->
  exists n', node_fwd n arr a snet d = (Ok n', [Send arr x d 0 (Some snet)]).
Proof. exact node_fwd_arrival_net. Qed.
Print Assumptions C19_forward_uses_router_on_arrival_network.

(* ---- wave 6: the two remaining knowledge-dependent emissions of NetworkServiceElement.
   The announcement handler repeats what it heard on every OTHER adapter, after recording it and before the
   parked requests are released; the recorded knowledge and the releases are those of node_iam. *)
Theorem C19_announcement_relayed_after_recording : forall n sn a ds,
  fst (node_iam_full n sn a ds) = fst (node_iam n sn a ds) /\
  (forall n', fst (node_iam n sn a ds) = Ok n' ->
     snd (node_iam_full n sn a ds) = iam_relay n sn ds ++ snd (node_iam n sn a ds)) /\
  (forall x, (2 <= length (nadapters n))%nat -> In x (nadapters n) -> x <> sn -> In (IAmR x None ds) (iam_relay n sn ds)) /\
  (forall e, In e (iam_relay n sn ds) -> exists x, e = IAmR x None ds /\ In x (nadapters n) /\ x <> sn).
Proof. exact node_iam_full_spec. Qed.
Print Assumptions C19_announcement_relayed_after_recording.

(* Who-Is-Router-To-Network d (d not attached) heard on net arr from station a: whatever the node emits is
   EITHER the single claim I-Am-Router-To-Network [d] to the asker, and then the look-up over the attached
   networks names a next hop for d on an adapter other than arr; OR the question relayed on another adapter
   with the asker as SADR, and then no attached network has a next hop for d.  Never a claim without knowledge. *)
Theorem C19_whois_claims_only_known : forall n arr a d e, zmem d (nadapters n) = false -> In e (node_whois n arr a d) ->
  (e = IAmR arr (Some a) [d] /\ node_whois n arr a d = [e] /\
   exists sn x, route n d = Some (sn, x) /\ In sn (nadapters n) /\ sn <> arr /\ get_router_info (ncache n) sn d = Some x)
  \/ (exists sn, e = WhoIsFwd sn d arr a /\ In sn (nadapters n) /\ sn <> arr /\
      forall sn0, In sn0 (nadapters n) -> get_router_info (ncache n) sn0 d = None).
Proof. exact node_whois_claim. Qed.
Print Assumptions C19_whois_claims_only_known.

Theorem C19_whois_answered_when_known_elsewhere : forall n arr a d sn x,
  (2 <= length (nadapters n))%nat -> zmem d (nadapters n) = false ->
  get_router_info (ncache n) arr d = None -> In sn (nadapters n) -> get_router_info (ncache n) sn d = Some x ->
  node_whois n arr a d = [IAmR arr (Some a) [d]].
Proof. exact node_whois_answered. Qed.
Print Assumptions C19_whois_answered_when_known_elsewhere.

Theorem C19_whois_unknown_is_relayed : forall n arr a d, (2 <= length (nadapters n))%nat -> zmem d (nadapters n) = false -> arr <> -1 ->
  (forall sn, In sn (nadapters n) -> get_router_info (ncache n) sn d = None) ->
  node_whois n arr a d = map (fun sn => WhoIsFwd sn d arr a) (filter (fun sn => negb (sn =? arr)) (nadapters n)).
Proof. exact node_whois_unknown. Qed.
Print Assumptions C19_whois_unknown_is_relayed.

Theorem C19_whois_after_announcement : forall n sn a ds n' arr b d, Inv (ncache n) ->
  (2 <= length (nadapters n))%nat -> In sn (nadapters n) -> sn <> arr -> zmem d (nadapters n) = false -> In d ds ->
  get_router_info (ncache n) arr d = None ->
  fst (node_iam n sn a ds) = Ok n' ->
  node_whois n' arr b d = [IAmR arr (Some b) [d]].
Proof. exact node_whois_after_announcement. Qed.
Print Assumptions C19_whois_after_announcement.

(* non-vacuity: a coherent non-empty cache, and the repaired-defect histories evaluated *)
Example C19_example_history :
  let s := run empty [Learn 1 1 [10; 11] 0; Learn 1 2 [11; 12] 0; Learn 2 3 [10] 0] in
  (get_router_info s 1 10, get_router_info s 1 11, get_router_info s 1 12, get_router_info s 2 10)
  = (Some 1, Some 2, Some 2, Some 3).
Proof. vm_compute. reflexivity. Qed.
Example C19_example_coherent_nonempty : exists s, Coherent s /\ get_router_info s 1 10 = Some 1.
Proof.
  exists (run empty [Learn 1 1 [10; 11] 0]). split; [|vm_compute; reflexivity].
  apply C19_history_coherent.
Qed.
(* the same MAC on two source networks: forgetting on network 1 leaves network 2 alone *)
Example C19_example_same_mac :
  let s := run empty [Learn 1 1 [10; 11] 0; Learn 2 1 [10; 12] 0; Forget 1 (Some 1) None] in
  (get_router_info s 1 10, get_router_info s 1 11, get_router_info s 2 10, get_router_info s 2 12, zlen (routers s))
  = (None, None, Some 1, Some 1, 1).
Proof. vm_compute. reflexivity. Qed.
(* a third router takes destinations from two different owners: both lose them *)
Example C19_example_two_owners :
  let s := run empty [Learn 1 1 [10; 12] 0; Learn 1 2 [11] 0; Learn 1 3 [10; 11] 0] in
  (get_router_info s 1 10, get_router_info s 1 11, get_router_info s 1 12, rget s 1 2, zlen (routers s), zlen (paths s))
  = (Some 3, Some 3, Some 1, None, 2, 3).
Proof. vm_compute. reflexivity. Qed.
Example C19_example_renumber_hypothesis :
  zmem 1 (nets (run empty [Learn 1 1 [10] 0; Learn 2 2 [10] 0])) = true.
Proof. vm_compute. reflexivity. Qed.
(* an announcement arriving while the other adapter's link is down: learned, handler left by the exception *)
Example C19_example_outage :
  let r := on_iam [false] (run empty [Learn 1 1 [10] 0]) 1 2 [10; 11] in
  (match fst r with Ok s' => (get_router_info s' 1 10, get_router_info s' 1 11) | Err _ => (None, None) end, snd r)
  = ((Some 2, Some 2), true).
Proof. vm_compute. reflexivity. Qed.
(* emitted traffic: a request parked while nothing is known, then an announcement listing [10; 11] with only
   11 waiting releases it to the announcer; a later request goes straight out; through-traffic arriving on
   net 1 for a destination known via a router on net 1 goes to that router *)
Example C19_example_traffic :
  let n0 := mkN empty [1; 2] [] in
  let (n1, o1) := node_step n0 (NReq 11 1) in
  let (n2, o2) := node_step n1 (NIAm 1 1 [10; 11]) in
  let (n3, o3) := node_step n2 (NReq 11 2) in
  let (n4, o4) := node_step n3 (NFwd 1 2 12 10) in
  (o1, o2, o3, o4, npending n4)
  = ([WhoIs 1 11; WhoIs 2 11], [IAmR 2 None [10; 11]; Send 1 1 11 1 None], [Send 1 1 11 2 None], [Send 1 1 10 0 (Some 12)], []).
Proof. vm_compute. reflexivity. Qed.
(* Who-Is-Router on a node with an UNNUMBERED adapter (-1) next to net 2: unknown and asked from the unnumbered
   side -> not relayed (no SADR can be formed), asked from net 2 -> relayed with the asker as SADR; after router 3
   on net 2 announced 10, a question from the unnumbered side is answered, one from net 2
   is not (same network); after the withdrawal the question is relayed again - and a look-up from the
   unnumbered network never sees what is known on net 2 *)
Example C19_example_whois :
  let n0 := mkN empty [-1; 2] [] in
  let (n1, o1) := node_step n0 (NWhoIs (-1) 7 10) in
  let (n2, o2) := node_step n1 (NIAm 2 3 [10]) in
  let (n3, o3) := node_step n2 (NWhoIs (-1) 7 10) in
  let (n4, o4) := node_step n3 (NWhoIs 2 7 10) in
  let (n5, o5) := node_step n4 (NOps [Forget 2 None (Some [10])]) in
  let (n6, o6) := node_step n5 (NWhoIs (-1) 7 10) in
  let (n7, o7) := node_step n6 (NWhoIs 2 7 10) in
  (o1, o2, o3, o4, o6, o7, get_router_info (ncache n4) (-1) 10, route n4 10)
  = ([], [IAmR (-1) None [10]], [IAmR (-1) (Some 7) [10]], [], [], [WhoIsFwd (-1) 10 2 7], None, Some (2, 3)).
Proof. vm_compute. reflexivity. Qed.
Example C19_example_whois_hypotheses :
  let n := mkN (run empty [Learn 2 3 [10] 0]) [1; 2] [] in
  (2 <= length (nadapters n))%nat /\ zmem 10 (nadapters n) = false /\ get_router_info (ncache n) 1 10 = None /\
  In 2 (nadapters n) /\ get_router_info (ncache n) 2 10 = Some 3.
Proof. vm_compute. repeat split; auto. Qed.
(* the three repaired defects, on the model of the repaired code *)
Example C19_example_forget_dnets_no_nameerror :
  step (run empty [Learn 1 1 [10; 11] 0]) (Forget 1 None (Some [10])) <> Err NameErr /\
  get_router_info (run empty [Learn 1 1 [10; 11] 0; Forget 1 None (Some [10])]) 1 11 = Some 1.
Proof. split; [vm_compute; discriminate | vm_compute; reflexivity]. Qed.
Example C19_example_forget_router_dnets_no_orphan :
  let s := run empty [Learn 1 1 [10; 11] 0; Forget 1 (Some 1) (Some [10])] in
  (get_router_info s 1 10, get_router_info s 1 11, rget s 1 1 <> None) = (None, Some 1, rget s 1 1 <> None)
  /\ zlen (routers s) = 1.
Proof. split; vm_compute; reflexivity. Qed.
Example C19_example_renumber_replaces :
  let s := run empty [Learn 1 1 [10; 11] 0; Learn 2 2 [10; 12] 0; Renum 1 2] in
  (get_router_info s 2 10, get_router_info s 2 11, get_router_info s 2 12, get_router_info s 1 10, zlen (paths s))
  = (Some 1, Some 1, None, None, 2).
Proof. vm_compute. reflexivity. Qed.
