(* C19 — routing knowledge stays coherent: one next hop per destination, newest wins.
   Property theorems only; the model is Bac.RouterCache (netservice.RouterInfoCache with the four
   fix: commits of this property), proofs live in Bac.RouterCacheFacts.

   Coherent s  :=  (get_router_info s sn d = Some a  <->  router (sn, a) is filed and credited with d)
                   /\ every filed router's source network is a key of self.routers.
   "At most one next hop per (snet, dnet)" is the functionality of the lookup together with
   C19_one_next_hop. *)
From Bac Require Import Base RouterCache RouterCacheFacts RouterCacheSweep.
Open Scope Z_scope.

Theorem C19_init : Coherent empty.
Proof. exact coherent_empty. Qed.
Print Assumptions C19_init.

(* every destination credited to a router can be looked up and leads to that router; nothing else can *)
Theorem C19_lookup_sound_complete : forall s sn d a, Coherent s ->
  (get_router_info s sn d = Some a <-> credited s sn a d).
Proof. intros s sn d a H. exact (proj1 H sn d a). Qed.
Print Assumptions C19_lookup_sound_complete.

Theorem C19_one_next_hop : forall s sn a b d, Coherent s ->
  credited s sn a d -> credited s sn b d -> a = b.
Proof. exact one_next_hop. Qed.
Print Assumptions C19_one_next_hop.

(* an announcement never fails on a coherent cache and leaves it coherent *)
Theorem C19_update_preserves : forall s sn a ds st, Coherent s ->
  exists s', update_router_info s sn a ds st = Ok s' /\ Coherent s'.
Proof. intros s sn a ds st H. destruct (update_ok s sn a ds st H) as [s' [H1 [H2 _]]]. eauto. Qed.
Print Assumptions C19_update_preserves.

(* newest wins, and nothing else moves: one equation for every lookup afterwards *)
Theorem C19_update_newest_wins : forall s sn a ds st s', Coherent s ->
  update_router_info s sn a ds st = Ok s' ->
  forall sn0 d0, get_router_info s' sn0 d0 =
    if (sn0 =? sn) && zmem d0 ds then Some a else get_router_info s sn0 d0.
Proof.
  intros s sn a ds st s' H E. destruct (update_ok s sn a ds st H) as [s'' [H1 [_ H3]]].
  assert (s'' = s') by congruence. subst. exact H3.
Qed.
Print Assumptions C19_update_newest_wins.

Theorem C19_status_preserves : forall s sn a st, Coherent s ->
  Coherent (update_router_status s sn a st) /\
  forall sn0 d0, get_router_info (update_router_status s sn a st) sn0 d0 = get_router_info s sn0 d0.
Proof. exact status_ok. Qed.
Print Assumptions C19_status_preserves.

(* forgetting a router (delete_router_info(snet, address) or with an empty list) removes exactly
   the destinations it was credited with and the record itself; all else is kept *)
Theorem C19_forget_router : forall s sn a dso, Coherent s -> (dso = None \/ dso = Some []) ->
  exists s', delete_router_info s sn (Some a) dso = Ok s' /\ Coherent s' /\
    (forall sn0 d0, get_router_info s' sn0 d0 =
       match get_router_info s sn0 d0 with
       | Some x => if (sn0 =? sn) && (x =? a) then None else Some x
       | None => None
       end) /\
    rget s' sn a = None /\
    (forall sn0 a0, (sn0, a0) <> (sn, a) -> rget s' sn0 a0 = rget s sn0 a0).
Proof. exact forget_router. Qed.
Print Assumptions C19_forget_router.

(* forgetting destinations of one router removes those it holds, never another router's *)
Theorem C19_forget_router_dnets : forall s sn a d r, Coherent s ->
  exists s', delete_router_info s sn (Some a) (Some (d :: r)) = Ok s' /\ Coherent s' /\
    (forall sn0 d0, get_router_info s' sn0 d0 =
       if (sn0 =? sn) && zmem d0 (d :: r) &&
          match get_router_info s sn0 d0 with Some x => x =? a | None => false end
       then None else get_router_info s sn0 d0) /\
    (forall sn0 a0, (sn0, a0) <> (sn, a) -> rget s' sn0 a0 = rget s sn0 a0).
Proof. exact forget_router_dnets. Qed.
Print Assumptions C19_forget_router_dnets.

(* forgetting destinations whoever serves them (no NameError any more) *)
Theorem C19_forget_dnets : forall s sn ds, Coherent s ->
  exists s', delete_router_info s sn None (Some ds) = Ok s' /\ Coherent s' /\
    (forall sn0 d0, get_router_info s' sn0 d0 =
       if (sn0 =? sn) && zmem d0 ds then None else get_router_info s sn0 d0).
Proof. exact forget_dnets. Qed.
Print Assumptions C19_forget_dnets.

Theorem C19_forget_neither_refused : forall s sn, delete_router_info s sn None None = Err RuntimeErr.
Proof. exact forget_neither. Qed.
Print Assumptions C19_forget_neither_refused.

(* PARTIAL: of update_source_network only the case "nothing filed under the old number" is proved
   (no change).  Missing: that the general case never raises KeyError on a coherent cache, keeps it
   coherent, and moves exactly the old network's lookups to the new number (replacing what was
   there).  That is covered by the correspondence after every operation and by the direct
   breadth-first predicate only. *)
Theorem C19_renumber_partial : forall s old new, zmem old (nets s) = false ->
  update_source_network s old new = Ok s.
Proof. exact renumber_unknown. Qed.
Print Assumptions C19_renumber_partial.

(* PARTIAL, bounded: renumbering after EVERY history of length <= 2 over the 54-operation alphabet
   sweep_alphabet (learn one/two destinations, forget router, forget destination, renumber; 2 source
   nets + a fresh number x 3 routers x 4 destinations), for the six renumberings sweep_renums
   (including onto an occupied number and onto itself): never an exception, coherent afterwards.
   A complete sweep of that finite domain inside the kernel (forallb ... = true by vm_compute,
   lifted with forallb_forall and coh_b_sound), not a proof for all states. *)
Theorem C19_renumber_swept_partial : forall h r, In h sweep_histories -> In r sweep_renums ->
  exists s', step (run empty h) r = Ok s' /\ Coherent s'.
Proof. exact sweep_renumber. Qed.
Print Assumptions C19_renumber_swept_partial.

(* the boolean coherence test used by the sweep implies the invariant *)
Theorem C19_coherence_test_sound : forall s, coh_b s = true -> Coherent s.
Proof. exact coh_b_sound. Qed.
Print Assumptions C19_coherence_test_sound.

(* PARTIAL (same gap): histories of any length without renumbering.  Every operation either
   succeeds or is the refused delete_router_info(snet); the cache stays coherent. *)
Theorem C19_history_coherent_partial : forall h, no_renum h -> Coherent (run empty h).
Proof. intros h H. exact (run_coherent h empty coherent_empty H). Qed.
Print Assumptions C19_history_coherent_partial.

Theorem C19_history_no_exception_partial : forall h o, no_renum h -> is_renum o = false ->
  (exists s', step (run empty h) o = Ok s' /\ Coherent s') \/
  (refused o /\ step (run empty h) o = Err RuntimeErr).
Proof. intros h o H Ho. exact (step_ok _ o (run_coherent h empty coherent_empty H) Ho). Qed.
Print Assumptions C19_history_no_exception_partial.

(* after any such history the newest announcement decides, and only for its destinations *)
Theorem C19_history_newest_wins_partial : forall h sn a ds st d, no_renum h -> In d ds ->
  get_router_info (run empty (h ++ [Learn sn a ds st])) sn d = Some a.
Proof. exact history_newest_wins. Qed.
Print Assumptions C19_history_newest_wins_partial.

Theorem C19_history_frame_partial : forall h sn a ds st sn0 d0, no_renum h -> (sn0 <> sn \/ ~ In d0 ds) ->
  get_router_info (run empty (h ++ [Learn sn a ds st])) sn0 d0 = get_router_info (run empty h) sn0 d0.
Proof. exact history_frame. Qed.
Print Assumptions C19_history_frame_partial.

(* non-vacuity: a coherent non-empty cache, and the repaired-defect histories evaluated *)
Example C19_example_history :
  let s := run empty [Learn 1 1 [10; 11] 0; Learn 1 2 [11; 12] 0; Learn 2 3 [10] 0] in
  (get_router_info s 1 10, get_router_info s 1 11, get_router_info s 1 12, get_router_info s 2 10)
  = (Some 1, Some 2, Some 2, Some 3).
Proof. vm_compute. reflexivity. Qed.
Example C19_example_coherent_nonempty : exists s, Coherent s /\ get_router_info s 1 10 = Some 1.
Proof.
  exists (run empty [Learn 1 1 [10; 11] 0]). split; [|vm_compute; reflexivity].
  apply C19_history_coherent_partial. reflexivity.
Qed.
Example C19_example_no_renum : no_renum [Learn 1 1 [10] 0; Forget 1 None (Some [10]); Status 1 1 2; Forget 1 (Some 1) None].
Proof. reflexivity. Qed.
Example C19_example_sweep_domain :
  In [] sweep_histories /\ In (Renum 1 2) sweep_renums /\
  length sweep_alphabet = 54%nat /\ length sweep_histories = 2971%nat /\
  nth_error sweep_histories 100 = Some [Learn 1 1 [10] 0; Forget 2 (Some 3) None].
Proof.
  split; [left; reflexivity|]. split; [left; reflexivity|].
  split; [vm_compute; reflexivity|]. split; vm_compute; reflexivity.
Qed.
(* the three repaired defects, on the model of the repaired code *)
Example C19_example_forget_dnets_no_nameerror :
  step (run empty [Learn 1 1 [10; 11] 0]) (Forget 1 None (Some [10])) <> Err NameErr /\
  get_router_info (run empty [Learn 1 1 [10; 11] 0; Forget 1 None (Some [10])]) 1 11 = Some 1.
Proof. split; [vm_compute; discriminate | vm_compute; reflexivity]. Qed.
Example C19_example_forget_router_dnets_no_orphan :
  let s := run empty [Learn 1 1 [10; 11] 0; Forget 1 (Some 1) (Some [10])] in
  (get_router_info s 1 10, get_router_info s 1 11, rget s 1 1 <> None) = (None, Some 1, rget s 1 1 <> None)
  /\ zlen (routers s) = 1.
Proof. split; vm_compute; reflexivity. Qed.
Example C19_example_renumber_replaces :
  let s := run empty [Learn 1 1 [10; 11] 0; Learn 2 2 [10; 12] 0; Renum 1 2] in
  (get_router_info s 2 10, get_router_info s 2 11, get_router_info s 2 12, get_router_info s 1 10, zlen (paths s))
  = (Some 1, Some 1, None, None, 2).
Proof. vm_compute. reflexivity. Qed.
