(* C11 — concurrent transactions never cross: replies reach only the request they answer.
   Property theorems only; model Bac.Ssm / Bac.SsmWorld, proofs in Bac.SsmFacts / Bac.SsmC11. *)
From Bac Require Import Base PyRt Ssm SsmFacts SsmC04a SsmC11 SsmC11a SsmC11s SsmC11p SsmWorld.
Open Scope Z_scope.

(* the id handed out is used by no live transaction to that peer, and it is an octet *)
Theorem C11_fresh_id : forall next peer live id next',
  get_next_invoke_id next peer live = (Ok id, next') ->
  forall t, In t live -> ~ (s_invoke t = id /\ s_peer t = peer).
Proof. exact get_next_invoke_id_fresh. Qed.
Print Assumptions C11_fresh_id.

Theorem C11_fresh_id_range : forall fuel initial next peer live id next',
  0 <= next < 256 -> alloc_id fuel initial next peer live = (Ok id, next') -> 0 <= id < 256 /\ 0 <= next' < 256.
Proof. exact alloc_id_range. Qed.
Print Assumptions C11_fresh_id_range.

(* the search terminates: the 257 units of fuel the model gives it are never used up (it raises RuntimeError after one lap) *)
Theorem C11_fresh_id_terminates : forall next peer live, 0 <= next < 256 ->
  fst (get_next_invoke_id next peer live) <> Err OutOfFuel.
Proof. exact get_next_invoke_id_total. Qed.
Print Assumptions C11_fresh_id_terminates.

(* the allocator succeeds as soon as any of the 255 ids it probes — next, next+1, ..., next+254 modulo 256 — is free for that
   peer, wherever the live ids lie (runs of live ids across the wrap 255 -> 0 included), and the id it returns is not live *)
Theorem C11_fresh_id_succeeds : forall next peer live k, 0 <= next < 256 -> 0 <= k < 255 ->
  existsb (tr_matches ((next + k) mod 256) peer) live = false ->
  exists id nx, get_next_invoke_id next peer live = (Ok id, nx) /\
                (forall t, In t live -> ~ (s_invoke t = id /\ s_peer t = peer)).
Proof. exact get_next_invoke_id_succeeds. Qed.
Print Assumptions C11_fresh_id_succeeds.

(* a reply, server-side segment-ack or server abort that matches no live client transaction — other peer, other id, or
   after completion — leaves the whole world unchanged *)
Theorem C11_late_reply_ignored : forall src dst a w n,
  to_client_side a = true -> get_node dst (w_nodes w) = Some n ->
  find_tr (a_invoke a) src (n_ctr n) O = None -> deliver src dst a w = w.
Proof. exact deliver_reply_no_match. Qed.
Print Assumptions C11_late_reply_ignored.

Theorem C11_stray_client_pdu_ignored : forall src dst a w n,
  to_client_side a = false -> (a_type a = 4 \/ a_type a = 7) -> get_node dst (w_nodes w) = Some n ->
  find_tr (a_invoke a) src (n_str n) O = None -> deliver src dst a w = w.
Proof. exact deliver_to_server_no_match. Qed.
Print Assumptions C11_stray_client_pdu_ignored.

(* one that does match is applied to exactly that transaction (equal peer and id): only that entry of that node's client
   table is replaced or removed; its server table and every other node stay as they were *)
Theorem C11_rx_touches_only_match_client : forall src dst a w n i t,
  to_client_side a = true -> get_node dst (w_nodes w) = Some n -> c_raw (n_cfg n) = false ->
  find_tr (a_invoke a) src (n_ctr n) O = Some (i, t) -> w_chains w = [] ->
  s_peer t = src /\ s_invoke t = a_invoke a /\
  exists l', w_nodes (deliver src dst a w) = put_node (mkN (n_cfg n) (n_next n) l' (n_str n)) (w_nodes w) /\
             ((exists t', l' = replace_nth i t' (n_ctr n)) \/ l' = remove_nth i (n_ctr n)).
Proof. exact deliver_reply_only_match. Qed.
Print Assumptions C11_rx_touches_only_match_client.

(* the serving side: a request (first frame, retransmission or further segment), a client's segment-ack or a client's abort
   changes only the server transaction with the sender's address and the PDU's invoke id — created, replaced or removed,
   also by the application's answer given inside the same step.  Every other entry of that server table (`others`), the
   client table and configuration of that node, and every other node are exactly as before.  no_flush: the scripted server
   applications do not give parked answers of OTHER requests from inside an indication (that would be the application, not the
   stack, touching other transactions; such applications are exercised by the correspondence and the direct predicate).  ctx_ok (the context a
   transaction reassembles carries the transaction's own invoke id) is an invariant: C11_ctx_ok_* below. *)
Theorem C11_rx_touches_only_match : forall src dst a w n,
  to_client_side a = false -> (a_type a = 0 \/ a_type a = 4 \/ a_type a = 7) ->
  get_node dst (w_nodes w) = Some n ->
  (forall t, In t (n_str n) -> ctx_ok t) -> no_flush (w_reqs w) ->
  node_ok_after (a_invoke a) src dst w (deliver src dst a w).
Proof. exact deliver_server_only_match. Qed.
Print Assumptions C11_rx_touches_only_match.

Theorem C11_answer_touches_only_match : forall j w, node_ok_after (j_invoke j) (j_to j) (j_node j) w (respond j w).
Proof. exact respond_ok. Qed.
Print Assumptions C11_answer_touches_only_match.

Theorem C11_ctx_ok_new : forall c peer client, ctx_ok (new_ssm c peer client).
Proof. exact ctx_ok_new. Qed.
Print Assumptions C11_ctx_ok_new.

Theorem C11_ctx_ok_frame : forall a st, ctx_ok (h_s st) ->
  (s_state (h_s st) = IDLE /\ s_ctx (h_s st) = None) \/ (s_state (h_s st) <> IDLE /\ s_invoke (h_s st) = a_invoke a) ->
  ctx_ok (h_s (fst (s_indication a st))).
Proof. exact s_indication_ctx_ok. Qed.
Print Assumptions C11_ctx_ok_frame.

Theorem C11_ctx_ok_answer : forall x st, ctx_ok (h_s st) -> a_invoke x = s_invoke (h_s st) ->
  ctx_ok (h_s (fst (s_confirmation x st))).
Proof. exact s_confirmation_ctx_ok. Qed.
Print Assumptions C11_ctx_ok_answer.

Theorem C11_other_nodes_untouched : forall n ns addr, addr <> c_addr (n_cfg n) -> get_node addr (put_node n ns) = get_node addr ns.
Proof. exact get_put_other. Qed.
Print Assumptions C11_other_nodes_untouched.

(* the lookup is by both keys: whatever it returns has that peer and that id *)
Theorem C11_same_id_other_peer_independent : forall i p l k j t, find_tr i p l k = Some (j, t) -> s_peer t = p /\ s_invoke t = i.
Proof. exact find_tr_peer. Qed.
Print Assumptions C11_same_id_other_peer_independent.

(* a retransmitted request that meets its transaction awaiting the application is dropped: not indicated again, nothing sent *)
Theorem C11_duplicate_request_not_reindicated : forall src dst a w n i t,
  a_type a = 0 -> get_node dst (w_nodes w) = Some n -> c_raw (n_cfg n) = false ->
  find_tr (a_invoke a) src (n_str n) O = Some (i, t) -> s_state t = AWAIT_RESPONSE ->
  w_trace (deliver src dst a w) = w_trace w /\ w_inflight (deliver src dst a w) = w_inflight w /\
  w_delayed (deliver src dst a w) = w_delayed w.
Proof. exact duplicate_request_world. Qed.
Print Assumptions C11_duplicate_request_not_reindicated.

(* sender side (round 6): the server bit of an Abort / SegmentAck names the role that sent it.  Whatever a CLIENT transaction
   puts on the wire while handling a reply (c_confirmation), a submission or whole-request retry (c_indication) or a time-out
   (c_process_task) — giving up with invalidApduInThisState included — carries srv = 0, so the peer looks it up among its
   server transactions and never among its own client transactions with the same (peer, id) *)
Theorem C11_client_frames_polarity : forall a st x,
  In (Tx x) (h_outs (fst (c_confirmation a st))) \/ In (Tx x) (h_outs (fst (c_indication a st))) \/ In (Tx x) (h_outs (fst (c_process_task st))) ->
  a_type x = 4 \/ a_type x = 7 -> In (Tx x) (h_outs st) \/ (a_srv x = false /\ to_client_side x = false).
Proof. exact client_frames_polarity. Qed.
Print Assumptions C11_client_frames_polarity.

(* ... and a SERVER transaction (frame from the client, answer of the application, time-out) sends them with srv = 1, or sends
   the very PDU it was handed back unchanged (the client's Abort echoed by segmented_request / segmented_response; the
   application's own Abort) *)
Theorem C11_server_frames_polarity : forall a st x,
  In (Tx x) (h_outs (fst (s_indication a st))) \/ In (Tx x) (h_outs (fst (s_confirmation a st))) \/ In (Tx x) (h_outs (fst (s_process_task st))) ->
  a_type x = 4 \/ a_type x = 7 -> In (Tx x) (h_outs st) \/ x = a \/ (a_srv x = true /\ to_client_side x = true).
Proof. exact server_frames_polarity. Qed.
Print Assumptions C11_server_frames_polarity.

Example C11_client_abort_example :
  h_outs (fst (c_confirmation (mk_cack true true 1 2 7 12 [1; 2]) waiting_client)) = [ToApp (mk_abort false 7 2); Tx (mk_abort false 7 2)].
Proof. exact client_abort_example. Qed.

Example C11_alloc_example :
  fst (get_next_invoke_id 255 5 [set_invoke_f 255 (new_ssm (mkNode 1 50 3 64 3 3000 1500 2 3000 false []) 5 true);
                                 set_invoke_f 0 (new_ssm (mkNode 1 50 3 64 3 3000 1500 2 3000 false []) 5 true)]) = Ok 1.
Proof. vm_compute. reflexivity. Qed.
Example C11_server_side_example :
  let w := init_world [mkNode 1 50 3 64 3 3000 1500 2 3000 false []; mkNode 2 50 3 64 3 3000 1500 2 3000 false []] [] [] (-1) [] in
  exists n, get_node 2 (w_nodes w) = Some n /\ (forall t, In t (n_str n) -> ctx_ok t) /\
            to_client_side (mk_creq false false true (-1) (-1) 0 0 7 12 [1]) = false.
Proof. eexists. vm_compute. repeat split. intros t []. Qed.
Example C11_wrap_run_example :
  let mk i := set_invoke_f i (mkSsm 5 (-1) IDLE None 0 0 0 0 false 0 0 None 3 3000 1500 3 (Some 64) 50 false None None 2 3000) in
  get_next_invoke_id 255 5 [mk 255; mk 0] = (Ok 1, 2) /\ get_next_invoke_id 254 5 [mk 254; mk 255; mk 0] = (Ok 1, 2).
Proof. exact wrap_run_example. Qed.
Example C11_reply_kinds : forallb to_client_side [mk_sack 1 12; mk_cack false false 0 0 1 12 []; mk_error 1 12 []; mk_reject 1 3;
                                                 mk_abort true 1 4; mk_segack false true 1 0 2] = true.
Proof. vm_compute. reflexivity. Qed.
