(* C16 — COV subscribers are told of every qualifying change, and only while subscribed.
   Property theorems over the model Bac.Cov (the code after the two C16 `fix:` commits);
   proofs live in Bac.CovFacts / Bac.CovRun.  `inv` is the reachable-state invariant
   (no two table entries with one key; object identifiers distinct; every entry unexpired),
   `wf_ev` says lifetimes are unsigned and time does not run backwards. *)
From Bac Require Import Base Cov CovFacts CovRun.
Open Scope Z_scope.

(* every state reachable from a device with distinct object identifiers satisfies the invariant *)
Theorem C16_reachable_inv : forall os es, NoDup (oids os) -> Forall wf_ev es -> inv (fst (run (init os) es)).
Proof. exact (fun os es Ho Hw => run_inv es (init os) (init_inv os Ho) Hw). Qed.
Print Assumptions C16_reachable_inv.

(* a re-subscription replaces: at most one table entry per (client, process, object), whatever the history *)
Theorem C16_table_nodup : forall os es, NoDup (oids os) -> Forall wf_ev es ->
  NoDup (keys (subs (fst (run (init os) es)))).
Proof. exact table_nodup. Qed.
Print Assumptions C16_table_nodup.

(* SubscribeCOV on an object that supports COV: acknowledged, table entry with the requested mode and
   lifetime, re-timed to now + lifetime (absent or 0 = no expiry), and an initial notification in the
   requested mode with the current values and the full lifetime as time remaining *)
Theorem C16_subscribe_ack_initial : forall s c p o cf life s' out ob,
  inv s -> wf_ev (Subscribe c p o cf life) -> step s (Subscribe c p o cf life) = (s', out) ->
  find_obj o (objs s) = Some ob -> okind ob <> KNoCov ->
  o_ack out = 1 /\
  In (mkNtf c p o cf (life_of life) (pv ob) (fl ob) (now s)) (o_ntfs out) /\
  exists x, find_sub c p o (subs s') = Some x /\ s_conf x = cf /\ s_life x = life_of life /\
    (life_of life = 0 -> s_task x = None) /\
    (0 < life_of life -> exists k, s_task x = Some (now s + life_of life * TICKS, k)).
Proof. exact subscribe_initial. Qed.
Print Assumptions C16_subscribe_ack_initial.

(* analog objects: the filter fires exactly when |new - last reported| >= increment *)
Theorem C16_increment_criterion : forall pr v i, inc_filter pr v i = true <-> i <= Z.abs (v - pr).
Proof. exact increment_criterion. Qed.
Print Assumptions C16_increment_criterion.

(* ... and that filter is what a write of presentValue evaluates (first qualifying write of a round) *)
Theorem C16_increment_write : forall o v pr,
  bound o = true -> trig o = false -> reports_prev (okind o) = true -> prev o = Some pr ->
  trig (write_obj o PPv v) = (inc o <=? Z.abs (v - pr)) /\ pv (write_obj o PPv v) = v
  /\ prev (write_obj o PPv v) = Some pr.
Proof. exact write_pv_trig. Qed.
Print Assumptions C16_increment_write.

(* other tracked properties (value of binary / multi-state objects, status flags, the increment of analog
   objects): any change triggers, an equal value does not *)
Theorem C16_any_change_write : forall o p v,
  bound o = true -> trig o = false -> tracked (okind o) p = true ->
  (p = PPv -> reports_prev (okind o) = false) ->
  trig (write_obj o p v) = negb (get_val o p =? v).
Proof. exact write_generic_trig. Qed.
Print Assumptions C16_any_change_write.

(* bursts coalesce: once triggered, later writes of the round only update the reported values *)
Theorem C16_burst_coalesces : forall o p v, trig o = true ->
  trig (write_obj o p v) = true /\ prev (write_obj o p v) = prev o /\ get_val (write_obj o p v) p = v.
Proof. exact write_triggered. Qed.
Print Assumptions C16_burst_coalesces.

(* per deferred round: every subscription of a triggered object gets the notification with the current
   values, nobody else gets one, nobody gets two, and the round ends with no trigger pending *)
Theorem C16_one_per_qualifying_change : forall s s' out, inv s -> step s Drain = (s', out) ->
  (forall x o, In x (subs s) -> find_obj (s_oid x) (objs s) = Some o ->
     (trig o = true -> In (mk_ntf (now s) o x) (o_ntfs out)) /\
     (trig o = false -> forall n, In n (o_ntfs out) -> nkey n <> key x)) /\
  NoDup (map nkey (o_ntfs out)) /\
  (forall o, In o (objs s') -> trig o = false) /\ subs s' = subs s.
Proof. exact drain_round. Qed.
Print Assumptions C16_one_per_qualifying_change.

(* every notification of every event: addressed to a table entry (or the subscription just made), in that
   entry's mode, emitted no later than its expiry instant, time remaining = max 1 (whole seconds left), 0 iff
   the subscription is indefinite.  (DESIGN.md expected this one refuted; it holds after the renewal fix.) *)
Theorem C16_time_remaining : forall s e s' out n,
  inv s -> wf_ev e -> step s e = (s', out) -> In n (o_ntfs out) ->
  exists x, (In x (subs s) \/ (In x (subs s') /\ is_subscribe_of (key x) e)) /\
    nkey n = key x /\ n_conf n = s_conf x /\ now s <= n_at n <= now s' /\
    match s_task x with
    | Some (t, _) => n_at n <= t /\ n_trem n = remaining (s_life x) t (n_at n) /\ 0 < s_life x
    | None => n_trem n = 0 /\ s_life x = 0
    end.
Proof. exact notification_content. Qed.
Print Assumptions C16_time_remaining.

(* after an acknowledged cancellation nothing is sent to that subscriber until it subscribes again *)
Theorem C16_no_notify_after_cancel : forall s c p o s' out es,
  inv s -> step s (Cancel c p o) = (s', out) -> o_ack out = 1 ->
  Forall wf_ev es -> Forall (fun e => ~ is_subscribe_of (c, p, o) e) es ->
  forall n, In n (all_ntfs (snd (run s' es))) -> nkey n <> (c, p, o).
Proof. exact no_notify_after_cancel. Qed.
Print Assumptions C16_no_notify_after_cancel.

(* a subscription with expiry instant t that is not renewed is never notified after t (equality only when a
   pulse-converter period boundary falls on t and its timer is ahead in the heap), always in its own mode *)
Theorem C16_no_notify_after_expiry : forall es s x t k,
  inv s -> In x (subs s) -> s_task x = Some (t, k) -> Forall wf_ev es ->
  Forall (fun e => ~ is_subscribe_of (key x) e) es ->
  forall n, In n (all_ntfs (snd (run s es))) -> nkey n = key x ->
  n_at n <= t /\ n_trem n = remaining (s_life x) t (n_at n) /\ n_conf n = s_conf x.
Proof. exact no_notify_after_expiry. Qed.
Print Assumptions C16_no_notify_after_expiry.

(* ... and the table never holds an elapsed subscription *)
Theorem C16_table_unexpired : forall os es, NoDup (oids os) -> Forall wf_ev es ->
  let s := fst (run (init os) es) in
  forall x, In x (subs s) ->
    match s_task x with Some (t, _) => now s < t /\ 0 < s_life x | None => s_life x = 0 end.
Proof. exact table_unexpired. Qed.
Print Assumptions C16_table_unexpired.

(* the activeCovSubscriptions list is the table: same keys in the same order, no duplicates, each with its
   mode and the time remaining of an unexpired entry *)
Theorem C16_active_list_exact : forall s c s' out, inv s -> step s (ReadActive c) = (s', out) ->
  exists l, o_act out = Some l /\ map akey l = keys (subs s) /\ NoDup (map akey l) /\
    forall a, In a l -> exists x, In x (subs s) /\ akey a = key x /\ a_conf a = s_conf x /\
      match s_task x with
      | Some (t, _) => now s < t /\ a_trem a = remaining (s_life x) t (now s)
      | None => a_trem a = 0 /\ s_life x = 0
      end.
Proof. exact active_list_exact. Qed.
Print Assumptions C16_active_list_exact.

(* ... and an entry leaves the table only by its own cancellation, replacement or expiry *)
Theorem C16_subscription_persists : forall s e s' out x, inv s -> wf_ev e -> step s e = (s', out) ->
  In x (subs s) -> ~ is_subscribe_of (key x) e ->
  (forall c p o, e = Cancel c p o -> key x <> (c, p, o)) ->
  (forall t, e = Advance t -> not_due_before x (now s + t)) ->
  In x (subs s').
Proof. exact subscription_persists. Qed.
Print Assumptions C16_subscription_persists.

(* ---- non-vacuity: a concrete device and timeline meeting the hypotheses *)
Definition ex_av : Z := 8388609.          (* analogValue,1 *)
Definition ex_cfg : list obj := [mkObj0 ex_av KInc 0 0 40 0; mkObj0 20971521 KGen 0 0 0 0; mkObj0 100663297 KPulse 0 0 40 3].
Definition ex_s1 : st := fst (run (init ex_cfg) [Subscribe 2 1 ex_av true (Some 5); Subscribe 3 1 ex_av false None; Write 0 PPv 40]).

Example C16_ex_cfg_nodup : NoDup (oids ex_cfg).
Proof. repeat constructor; cbn; intuition discriminate. Qed.
Example C16_ex_events_wf : Forall wf_ev [Subscribe 2 1 ex_av true (Some 5); Subscribe 3 1 ex_av false None; Write 0 PPv 40; Advance 40].
Proof. repeat constructor; cbn; lia. Qed.
Example C16_ex_inv : inv ex_s1.
Proof. apply C16_reachable_inv; [exact C16_ex_cfg_nodup|repeat constructor; cbn; lia]. Qed.
(* the write of exactly the increment is pending; the drain notifies both subscribers once, each in its mode,
   5 s and indefinite remaining *)
Example C16_ex_round :
  map canon_ntf (o_ntfs (snd (step ex_s1 Drain))) = [[2; 1; ex_av; 1; 5; 40; 0]; [3; 1; ex_av; 0; 0; 40; 0]].
Proof. vm_compute. reflexivity. Qed.
Example C16_ex_below_increment :
  o_ntfs (snd (step (fst (run (init ex_cfg) [Subscribe 2 1 ex_av true (Some 5); Write 0 PPv 39])) Drain)) = [].
Proof. vm_compute. reflexivity. Qed.
Example C16_ex_cancel_acked : o_ack (snd (step ex_s1 (Cancel 2 1 ex_av))) = 1.
Proof. vm_compute. reflexivity. Qed.
Example C16_ex_expiry_task : option_map s_task (find_sub 2 1 ex_av (subs ex_s1)) = Some (Some (T0 + 40, 0)).
Proof. vm_compute. reflexivity. Qed.
(* advancing exactly onto the expiry removes the entry; the other one stays and is still served *)
Example C16_ex_expired :
  keys (subs (fst (step ex_s1 (Advance 40)))) = [(3, 1, ex_av)] /\
  map canon_ntf (o_ntfs (snd (step (fst (step (fst (step ex_s1 (Advance 40))) (Write 0 PPv 0))) Drain))) = [[3; 1; ex_av; 0; 0; 0; 0]].
Proof. vm_compute. split; reflexivity. Qed.
Example C16_ex_active :
  option_map (map canon_act) (o_act (snd (step ex_s1 (ReadActive 4)))) = Some [[2; 1; ex_av; 1; 5; 1; 40]; [3; 1; ex_av; 0; 0; 1; 40]].
Proof. vm_compute. reflexivity. Qed.
