From Bac Require Import Base Cov CovFacts.
