(* C16 — COV subscribers are told of every qualifying change, and only while subscribed.
   Property theorems over the model Bac.Cov (the code after the four C16 `fix:` commits), in which the
   deferred-function queue is a state component: `Write`, `SubscribeNow`, `CancelNow`, `ReadNow` leave it alone,
   `StepQ` runs its head, `Drain` all of it, `Subscribe`/`Cancel`/`ReadActive` = Drain; request; Drain.
   Proofs live in Bac.CovFacts / Bac.CovRun / Bac.CovQueue.  `inv` is the reachable-state invariant
   (no two table entries with one key; object identifiers distinct; every entry unexpired),
   `wf_ev` says lifetimes are unsigned and time does not run backwards. *)
From Bac Require Import Base Cov CovFacts CovRun CovQueue CovRound.
Open Scope Z_scope.

(* every state reachable from a device with distinct object identifiers, by ANY interleaving of well-formed events,
   satisfies the three invariants: table (one entry per key, every entry unexpired), identities of Subscription
   objects unique, deferred queue consistent with the trigger flags *)
Theorem C16_reachable_inv : forall os es, NoDup (oids os) -> Forall wf_ev es -> inv (fst (run (init os) es)).
Proof. exact (fun os es Ho Hw => run_inv es (init os) (init_inv os Ho) Hw). Qed.
Print Assumptions C16_reachable_inv.

Theorem C16_reachable_all : forall es s, inv s -> idinv s -> qinv s -> Forall wf_ev es ->
  let s' := fst (run s es) in inv s' /\ idinv s' /\ qinv s'.
Proof. exact run_q. Qed.
Print Assumptions C16_reachable_all.

(* a re-subscription replaces: at most one table entry per (client, process, object), whatever the history *)
Theorem C16_table_nodup : forall os es, NoDup (oids os) -> Forall wf_ev es ->
  NoDup (keys (subs (fst (run (init os) es)))).
Proof. exact table_nodup. Qed.
Print Assumptions C16_table_nodup.

(* SubscribeCOV on an object that supports COV: acknowledged, table entry with the requested mode and
   lifetime, re-timed to now + lifetime (absent or 0 = no expiry), and an initial notification in the
   requested mode with the current values and the full lifetime as time remaining *)
Theorem C16_subscribe_ack_initial : forall s c p o cf life s' out ob,
  inv s -> idinv s -> wf_ev (Subscribe c p o cf life) -> step s (Subscribe c p o cf life) = (s', out) ->
  find_obj o (objs s) = Some ob -> okind ob <> KNoCov ->
  o_ack out = 1 /\
  In (mkNtf c p o cf (life_of life) (pv ob) (fl ob) (now s)) (o_ntfs out) /\
  queue s' = [] /\
  exists x, find_sub c p o (subs s') = Some x /\ s_conf x = cf /\ s_life x = life_of life /\
    (life_of life = 0 -> s_task x = None) /\
    (0 < life_of life -> exists k, s_task x = Some (now s + life_of life * TICKS, k)).
Proof. exact subscribe_initial. Qed.
Print Assumptions C16_subscribe_ack_initial.

(* analog objects: the filter fires exactly when |new - last reported| >= increment *)
Theorem C16_increment_criterion : forall pr v i, inc_filter pr v i = true <-> i <= Z.abs (v - pr).
Proof. exact increment_criterion. Qed.
Print Assumptions C16_increment_criterion.

(* ... and that filter is what a write of presentValue evaluates (first qualifying write of a round) *)
Theorem C16_increment_write : forall o v pr,
  bound o = true -> trig o = false -> reports_prev (okind o) = true -> prev o = Some pr ->
  trig (write_obj o PPv v) = (inc o <=? Z.abs (v - pr)) /\ pv (write_obj o PPv v) = v
  /\ prev (write_obj o PPv v) = Some pr.
Proof. exact write_pv_trig. Qed.
Print Assumptions C16_increment_write.

(* other tracked properties (value of binary / multi-state objects, status flags, the increment of analog
   objects): any change triggers, an equal value does not *)
Theorem C16_any_change_write : forall o p v,
  bound o = true -> trig o = false -> tracked (okind o) p = true ->
  (p = PPv -> reports_prev (okind o) = false) ->
  trig (write_obj o p v) = negb (get_val o p =? v).
Proof. exact write_generic_trig. Qed.
Print Assumptions C16_any_change_write.

(* bursts coalesce: once triggered, later writes of the round only update the reported values *)
Theorem C16_burst_coalesces : forall o p v, trig o = true ->
  trig (write_obj o p v) = true /\ prev (write_obj o p v) = prev o /\ get_val (write_obj o p v) p = v.
Proof. exact write_triggered. Qed.
Print Assumptions C16_burst_coalesces.

(* one _execute = one notification round: when the pending _execute of the live detection instance of object o
   runs (StepQ, at any point of any interleaving), every subscription the object has at that moment gets exactly
   one notification with the then-current values, nobody else gets anything, the trigger is cleared and the
   reported value becomes the reference *)
Theorem C16_one_per_qualifying_change : forall s o g r ob s' out, inv s -> queue s = DExec o g :: r ->
  find_obj o (objs s) = Some ob -> bound ob = true -> gen ob = g ->
  step s StepQ = (s', out) ->
  o_ntfs out = map (mk_ntf (now s) ob) (subs_of o (subs s)) /\
  NoDup (map nkey (o_ntfs out)) /\
  (forall x, In x (subs s) -> s_oid x = o -> In (mk_ntf (now s) ob x) (o_ntfs out)) /\
  (forall n, In n (o_ntfs out) -> n_oid n = o /\ n_pv n = pv ob /\ n_fl n = fl ob) /\
  queue s' = r /\ subs s' = subs s /\
  exists ob', find_obj o (objs s') = Some ob' /\ trig ob' = false /\ pv ob' = pv ob /\
    (reports_prev (okind ob) = true -> prev ob' = Some (pv ob)).
Proof. exact execute_step. Qed.
Print Assumptions C16_one_per_qualifying_change.

(* ... and in every reachable state (qinv) a triggered detection has exactly one such _execute pending, an
   untriggered one none (bursts coalesce at the queue, whatever is interleaved), and an empty queue means that
   nothing is triggered *)
Theorem C16_pending_execute : forall s ob, qinv s -> In ob (objs s) ->
  (bound ob = true -> trig ob = true -> In (DExec (oid ob) (gen ob)) (queue s)) /\
  (bound ob = true -> (cnt (DExec (oid ob) (gen ob)) (queue s) <= 1)%nat) /\
  (bound ob = true -> In (DExec (oid ob) (gen ob)) (queue s) -> trig ob = true) /\
  (queue s = [] -> trig ob = false).
Proof. exact pending_execute. Qed.
Print Assumptions C16_pending_execute.

(* a write enqueues the _execute exactly when it sets the trigger *)
Theorem C16_write_enqueues : forall s i p v o s' out, nth_error (objs s) i = Some o -> has_prop (okind o) p = true ->
  step s (Write i p v) = (s', out) ->
  queue s' = (if negb (trig o) && trig (write_obj o p v) then queue s ++ [DExec (oid o) (gen o)] else queue s) /\
  (trig o = true -> queue s' = queue s) /\ o_ntfs out = [] /\ subs s' = subs s.
Proof. exact write_enqueues. Qed.
Print Assumptions C16_write_enqueues.

(* the _execute of a detection instance that was unbound meanwhile (last subscription cancelled or expired, perhaps
   re-created since) reaches nobody *)
Theorem C16_stale_execute : forall s o g r s' out, queue s = DExec o g :: r ->
  (forall ob, find_obj o (objs s) = Some ob -> bound ob = false \/ gen ob <> g) ->
  step s StepQ = (s', out) -> o_ntfs out = [] /\ s' = set_queue s r.
Proof. exact stale_execute_step. Qed.
Print Assumptions C16_stale_execute.

(* the deferred initial notification goes to that Subscription object if it is still in the table and is dropped
   otherwise (fix C16-F4) *)
Theorem C16_initial_step : forall s i r s' out, queue s = DInit i :: r -> step s StepQ = (s', out) ->
  match find_id i (subs s) with
  | Some x => forall ob, find_obj (s_oid x) (objs s) = Some ob -> o_ntfs out = [mk_ntf (now s) ob x]
  | None => o_ntfs out = [] /\ s' = set_queue s r
  end.
Proof. exact initial_step. Qed.
Print Assumptions C16_initial_step.

(* every notification of every event: addressed to a table entry (or the subscription just made), in that
   entry's mode, emitted no later than its expiry instant, time remaining = max 1 (whole seconds left), 0 iff
   the subscription is indefinite.  (DESIGN.md expected this one refuted; it holds after the renewal fix.) *)
Theorem C16_time_remaining : forall s e s' out n,
  inv s -> wf_ev e -> step s e = (s', out) -> In n (o_ntfs out) ->
  exists x, (In x (subs s) \/ (In x (subs s') /\ is_subscribe_of (key x) e)) /\
    nkey n = key x /\ n_conf n = s_conf x /\ now s <= n_at n <= now s' /\
    match s_task x with
    | Some (t, _) => n_at n <= t /\ n_trem n = remaining (s_life x) t (n_at n) /\ 0 < s_life x
    | None => n_trem n = 0 /\ s_life x = 0
    end.
Proof. exact notification_content. Qed.
Print Assumptions C16_time_remaining.

(* after an acknowledged cancellation (drained or not) nothing is sent to that subscriber until it subscribes again,
   whatever is still in the deferred queue *)
Theorem C16_no_notify_after_cancel : forall s e k s' out es,
  inv s -> is_cancel_of k e -> step s e = (s', out) -> o_ack out = 1 ->
  Forall wf_ev es -> Forall (fun e => ~ is_subscribe_of k e) es ->
  forall n, In n (all_ntfs (snd (run s' es))) -> nkey n <> k.
Proof. exact no_notify_after_cancel. Qed.
Print Assumptions C16_no_notify_after_cancel.

(* a subscription with expiry instant t that is not renewed is never notified after t (equality only when a
   pulse-converter period boundary falls on t and its timer is ahead in the heap), always in its own mode *)
Theorem C16_no_notify_after_expiry : forall es s x t k,
  inv s -> In x (subs s) -> s_task x = Some (t, k) -> Forall wf_ev es ->
  Forall (fun e => ~ is_subscribe_of (key x) e) es ->
  forall n, In n (all_ntfs (snd (run s es))) -> nkey n = key x ->
  n_at n <= t /\ n_trem n = remaining (s_life x) t (n_at n) /\ n_conf n = s_conf x.
Proof. exact no_notify_after_expiry. Qed.
Print Assumptions C16_no_notify_after_expiry.

(* ... and the table never holds an elapsed subscription *)
Theorem C16_table_unexpired : forall os es, NoDup (oids os) -> Forall wf_ev es ->
  let s := fst (run (init os) es) in
  forall x, In x (subs s) ->
    match s_task x with Some (t, _) => now s < t /\ 0 < s_life x | None => s_life x = 0 end.
Proof. exact table_unexpired. Qed.
Print Assumptions C16_table_unexpired.

(* the activeCovSubscriptions list is the table: same keys in the same order, no duplicates, each with its
   mode and the time remaining of an unexpired entry *)
Theorem C16_active_list_exact : forall s c s' out, inv s -> (step s (ReadActive c) = (s', out) \/ step s (ReadNow c) = (s', out)) ->
  exists l, o_act out = Some l /\ map akey l = keys (subs s) /\ NoDup (map akey l) /\
    forall a, In a l -> exists x, In x (subs s) /\ akey a = key x /\ a_conf a = s_conf x /\
      match s_task x with
      | Some (t, _) => now s < t /\ a_trem a = remaining (s_life x) t (now s)
      | None => a_trem a = 0 /\ s_life x = 0
      end.
Proof. exact active_list_exact. Qed.
Print Assumptions C16_active_list_exact.

(* ... and an entry leaves the table only by its own cancellation, replacement or expiry *)
Theorem C16_subscription_persists : forall s e s' out x, inv s -> wf_ev e -> step s e = (s', out) ->
  In x (subs s) -> ~ is_subscribe_of (key x) e -> ~ is_cancel_of (key x) e ->
  (forall t, e = Advance t -> not_due_before x (now s + t)) ->
  In x (subs s').
Proof. exact subscription_persists. Qed.
Print Assumptions C16_subscription_persists.

(* ---- whole rounds, from one quiescent instant (empty deferred queue) to the next: the sentence of the property itself.
   `reference o` = COVIncrementCriteria.previous_reported_value (the value of the last notification; the value the object
   had while nothing has been reported yet).  A presentValue write on an analog / pulse-converter object followed by the
   drain: at least one increment away from the reference => every subscription of the object gets exactly one
   notification (mode, time remaining of its entry; the written value, the current flags) and the written value is the
   new reference; less than one increment => nobody gets anything and the reference stays. *)
Theorem C16_change_round_increment : forall s i v o s1 o1 s2 out,
  inv s -> qinv s -> queue s = [] -> nth_error (objs s) i = Some o -> bound o = true -> reports_prev (okind o) = true ->
  step s (Write i PPv v) = (s1, o1) -> step s1 Drain = (s2, out) ->
  o_ntfs o1 = [] /\ queue s2 = [] /\ subs s2 = subs s /\
  (inc o <= Z.abs (v - reference o) ->
     o_ntfs out = map (fun x => mkNtf (s_cli x) (s_proc x) (s_oid x) (s_conf x) (trem (now s) x) v (fl o) (now s))
                      (subs_of (oid o) (subs s)) /\
     NoDup (map nkey (o_ntfs out)) /\
     exists ob', find_obj (oid o) (objs s2) = Some ob' /\ reference ob' = v /\ pv ob' = v /\ trig ob' = false) /\
  (Z.abs (v - reference o) < inc o ->
     o_ntfs out = [] /\
     exists ob', find_obj (oid o) (objs s2) = Some ob' /\ reference ob' = reference o /\ pv ob' = v /\ trig ob' = false).
Proof. exact change_round_increment. Qed.
Print Assumptions C16_change_round_increment.

(* ... for the other objects (and for status flags / the increment of analog objects): any change of a tracked
   property notifies every subscription of the object once, an equal value nobody *)
Theorem C16_change_round_generic : forall s i p v o s1 o1 s2 out,
  inv s -> qinv s -> queue s = [] -> nth_error (objs s) i = Some o -> bound o = true ->
  has_prop (okind o) p = true -> tracked (okind o) p = true -> (p = PPv -> reports_prev (okind o) = false) ->
  step s (Write i p v) = (s1, o1) -> step s1 Drain = (s2, out) ->
  (get_val o p <> v ->
     o_ntfs out = map (mk_ntf (now s) (set_val o p v)) (subs_of (oid o) (subs s)) /\ NoDup (map nkey (o_ntfs out))) /\
  (get_val o p = v -> o_ntfs out = []).
Proof. exact change_round_generic. Qed.
Print Assumptions C16_change_round_generic.

(* bursts within one instant: the first write crosses the increment, ANY number of further presentValue writes follow
   before the deferred notification runs.  One notification per subscription, carrying the LAST value written, and that
   value - the one actually reported, not the one that set the trigger - is the reference of the increment test from
   then on (DetectionMonitor.property_change mirrors every write into the algorithm before the _triggered short-cut). *)
Theorem C16_burst_reports_last : forall vs s i v1 o s' outs,
  inv s -> qinv s -> queue s = [] -> nth_error (objs s) i = Some o -> bound o = true -> reports_prev (okind o) = true ->
  inc o <= Z.abs (v1 - reference o) ->
  run s (Write i PPv v1 :: map (Write i PPv) vs ++ [Drain]) = (s', outs) ->
  let w := last vs v1 in
  all_ntfs outs = map (fun x => mkNtf (s_cli x) (s_proc x) (s_oid x) (s_conf x) (trem (now s) x) w (fl o) (now s))
                      (subs_of (oid o) (subs s)) /\
  NoDup (map nkey (all_ntfs outs)) /\ subs s' = subs s /\ queue s' = [] /\
  exists ob', find_obj (oid o) (objs s') = Some ob' /\ reference ob' = w /\ pv ob' = w /\ trig ob' = false.
Proof. exact burst_reports_last. Qed.
Print Assumptions C16_burst_reports_last.

(* C16-F3 (known finding): the increment reference is per object and is moved by the initial notification of
   somebody else.  Witness: increment 10.0; subscriber 2 is told 0.0 and nothing ever again, while the value creeps
   8.0 at a time between (re)subscriptions of subscriber 3 and ends at 30.0 = three increments away. *)
Definition f3_cfg : list obj := [mkObj0 8388609 KInc 0 0 40 0].
Definition f3_events : list ev :=
  [Subscribe 2 1 8388609 false (Some 0); Write 0 PPv 32; Subscribe 3 1 8388609 false (Some 0); Write 0 PPv 64;
   Subscribe 3 1 8388609 false (Some 0); Write 0 PPv 96; Subscribe 3 1 8388609 false (Some 0); Write 0 PPv 120; Drain].
Theorem C16_reference_reset_refuted :
  NoDup (oids f3_cfg) /\ Forall wf_ev f3_events /\
  let '(s, outs) := run (init f3_cfg) f3_events in
  map n_pv (filter (fun n => n_cli n =? 2) (all_ntfs outs)) = [0] /\
  option_map s_cli (find_sub 2 1 8388609 (subs s)) = Some 2 /\
  map pv (objs s) = [120] /\ map inc (objs s) = [40] /\ queue s = [].
Proof. split; [repeat constructor; cbn; intuition discriminate|]. split; [repeat constructor; cbn; lia|]. vm_compute. auto. Qed.
Print Assumptions C16_reference_reset_refuted.

(* ---- non-vacuity: a concrete device and timeline meeting the hypotheses *)
Definition ex_av : Z := 8388609.          (* analogValue,1 *)
Definition ex_cfg : list obj := [mkObj0 ex_av KInc 0 0 40 0; mkObj0 20971521 KGen 0 0 0 0; mkObj0 100663297 KPulse 0 0 40 3].
Definition ex_s1 : st := fst (run (init ex_cfg) [Subscribe 2 1 ex_av true (Some 5); Subscribe 3 1 ex_av false None; Write 0 PPv 40]).

Example C16_ex_cfg_nodup : NoDup (oids ex_cfg).
Proof. repeat constructor; cbn; intuition discriminate. Qed.
Example C16_ex_events_wf : Forall wf_ev [Subscribe 2 1 ex_av true (Some 5); Subscribe 3 1 ex_av false None; Write 0 PPv 40; Advance 40].
Proof. repeat constructor; cbn; lia. Qed.
Example C16_ex_inv : inv ex_s1 /\ idinv ex_s1 /\ qinv ex_s1.
Proof.
  apply C16_reachable_all; [exact (init_inv _ C16_ex_cfg_nodup)|split; constructor| |repeat constructor; cbn; lia].
  apply init_q. repeat constructor.
Qed.
(* a quiescent state with two subscriptions of the analog value: the hypotheses of the round theorems hold; the burst
   0 -> 48 -> 40 (increment 10.0 = 40 quarters) is reported once to each with 40, and 40 is the new reference:
   the next round 40 -> 79 is silent, 40 -> 80 is not *)
Definition ex_s0 : st := fst (run (init ex_cfg) [Subscribe 2 1 ex_av true (Some 5); Subscribe 3 1 ex_av false None]).
Example C16_ex_round_hyps : inv ex_s0 /\ qinv ex_s0 /\ queue ex_s0 = [] /\
  exists o, nth_error (objs ex_s0) 0 = Some o /\ bound o = true /\ reports_prev (okind o) = true /\
    reference o = 0 /\ inc o <= Z.abs (48 - reference o) /\ Z.abs (39 - reference o) < inc o.
Proof.
  assert (H : inv ex_s0 /\ idinv ex_s0 /\ qinv ex_s0).
  { apply C16_reachable_all; [exact (init_inv _ C16_ex_cfg_nodup)|split; constructor| |repeat constructor; cbn; lia].
    apply init_q. repeat constructor. }
  destruct H as [A [_ B]]. split; [exact A|]. split; [exact B|]. split; [vm_compute; reflexivity|].
  eexists. split; [vm_compute; reflexivity|]. vm_compute. repeat split; congruence.
Qed.
Example C16_ex_burst :
  map (fun o => map canon_ntf (o_ntfs o))
      (snd (run ex_s0 [Write 0 PPv 48; Write 0 PPv 40; Drain; Write 0 PPv 79; Drain; Write 0 PPv 1; Drain; Write 0 PPv 0; Drain])) =
  [[]; []; [[2; 1; ex_av; 1; 5; 40; 0]; [3; 1; ex_av; 0; 0; 40; 0]]; []; []; []; []; []; [[2; 1; ex_av; 1; 5; 0; 0]; [3; 1; ex_av; 0; 0; 0; 0]]].
Proof. vm_compute. reflexivity. Qed.
(* the stepped queue: a subscribe delivered between trigger and execute gets the change notification and then its
   initial one; a cancel overtaking the deferred initial notification silences it *)
Example C16_ex_stepped :
  map (fun o => map canon_ntf (o_ntfs o))
      (snd (run ex_s1 [SubscribeNow 4 1 ex_av true None; StepQ; StepQ; SubscribeNow 4 2 ex_av false None; CancelNow 4 2 ex_av; StepQ])) =
  [[]; [[2; 1; ex_av; 1; 5; 40; 0]; [3; 1; ex_av; 0; 0; 40; 0]; [4; 1; ex_av; 1; 0; 40; 0]]; [[4; 1; ex_av; 1; 0; 40; 0]]; []; []; []].
Proof. vm_compute. reflexivity. Qed.
(* the write of exactly the increment is pending; the drain notifies both subscribers once, each in its mode,
   5 s and indefinite remaining *)
Example C16_ex_round :
  map canon_ntf (o_ntfs (snd (step ex_s1 Drain))) = [[2; 1; ex_av; 1; 5; 40; 0]; [3; 1; ex_av; 0; 0; 40; 0]].
Proof. vm_compute. reflexivity. Qed.
Example C16_ex_below_increment :
  o_ntfs (snd (step (fst (run (init ex_cfg) [Subscribe 2 1 ex_av true (Some 5); Write 0 PPv 39])) Drain)) = [].
Proof. vm_compute. reflexivity. Qed.
Example C16_ex_cancel_acked : o_ack (snd (step ex_s1 (Cancel 2 1 ex_av))) = 1.
Proof. vm_compute. reflexivity. Qed.
Example C16_ex_expiry_task : option_map s_task (find_sub 2 1 ex_av (subs ex_s1)) = Some (Some (T0 + 40, 1)).
Proof. vm_compute. reflexivity. Qed.
(* advancing exactly onto the expiry removes the entry; the other one stays and is still served *)
Example C16_ex_expired :
  keys (subs (fst (step ex_s1 (Advance 40)))) = [(3, 1, ex_av)] /\
  map canon_ntf (o_ntfs (snd (step (fst (step (fst (step ex_s1 (Advance 40))) (Write 0 PPv 0))) Drain))) = [[3; 1; ex_av; 0; 0; 0; 0]].
Proof. vm_compute. split; reflexivity. Qed.
Example C16_ex_active :
  option_map (map canon_act) (o_act (snd (step ex_s1 (ReadActive 4)))) = Some [[2; 1; ex_av; 1; 5; 1; 40]; [3; 1; ex_av; 0; 0; 1; 40]].
Proof. vm_compute. reflexivity. Qed.
