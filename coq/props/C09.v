(* C09 — BACnet/IP frames carry a correct length and round-trip all twelve functions.
   Property theorems only; the model is Bac.Bvll (bvll.py + AnnexJCodec, octets below the codec),
   proofs live in Bac.BvllFacts / BvllRound / BvllTotal / BvllStable. *)
From Bac Require Import Base Bvll BvllFacts BvllRound BvllTotal BvllStable BvllRt BvllGen BvllGenFacts.
Open Scope N_scope.

(* every frame the encoder emits — whatever the parameters, whatever bvlciLength the object held
   (`stored`) — starts 0x81, function code, and a length field equal to its octet count, as long as
   that count fits the 16-bit field *)
Theorem C09_length_field : forall stored m bs,
  enc_frame_with stored m = Ok bs -> lenN bs < 65536 ->
  nth 0 bs 0 = 129 /\ nth 1 bs 0 = fn_of m /\ nth 2 bs 0 * 256 + nth 3 bs 0 = lenN bs.
Proof. exact length_field. Qed.
Print Assumptions C09_length_field.

(* the bound is needed: a well-formed 65536-octet frame is emitted with length field 0
   (outside the property's domain: NPDU <= 1497 octets, tables <= 40 entries) *)
Theorem C09_length_field_bound_tight :
  exists m bs, wf_msg m = true /\ enc_frame m = Ok bs /\ lenN bs = 65536 /\
               nth 2 bs 0 * 256 + nth 3 bs 0 = 0.
Proof. exact length_field_bound_tight. Qed.
Print Assumptions C09_length_field_bound_tight.

(* the octet count is the Annex J.2 count for the class: 6, 4+10n, 4, 10+|npdu|, 10, 4+|npdu| *)
Theorem C09_frame_octets : forall m bs,
  wf_msg m = true -> enc_frame m = Ok bs -> lenN bs = frame_len m.
Proof. intros m bs W. now apply frame_octets. Qed.
Print Assumptions C09_frame_octets.

(* round trip, all twelve functions at once: six-octet addresses, masks < 2^32, TTL / remaining /
   result code < 2^16, tables and payloads of any size that fits the length field *)
Theorem C09_roundtrip : forall m, wf_msg m = true -> frame_len m < 65536 ->
  exists bs, enc_frame m = Ok bs /\ dec_frame bs = Ok m /\ lenN bs = frame_len m.
Proof. exact frame_roundtrip. Qed.
Print Assumptions C09_roundtrip.

(* ... and one by one, with the hypotheses spelled out *)
Theorem C09_roundtrip_result : forall c, (0 <= c < 65536)%Z ->
  exists bs, enc_frame (Result (Some c)) = Ok bs /\ dec_frame bs = Ok (Result (Some c)) /\ lenN bs = 6.
Proof. exact roundtrip_result. Qed.
Print Assumptions C09_roundtrip_result.

Theorem C09_roundtrip_write_bdt : forall t, forallb wf_bdte t = true -> lenN t <= 6553 ->
  exists bs, enc_frame (WriteBDT t) = Ok bs /\ dec_frame bs = Ok (WriteBDT t) /\ lenN bs = 4 + 10 * lenN t.
Proof. exact roundtrip_write_bdt. Qed.
Print Assumptions C09_roundtrip_write_bdt.

Theorem C09_roundtrip_read_bdt :
  exists bs, enc_frame ReadBDT = Ok bs /\ dec_frame bs = Ok ReadBDT /\ lenN bs = 4.
Proof. exact roundtrip_read_bdt. Qed.
Print Assumptions C09_roundtrip_read_bdt.

Theorem C09_roundtrip_read_bdt_ack : forall t, forallb wf_bdte t = true -> lenN t <= 6553 ->
  exists bs, enc_frame (ReadBDTAck t) = Ok bs /\ dec_frame bs = Ok (ReadBDTAck t) /\ lenN bs = 4 + 10 * lenN t.
Proof. exact roundtrip_read_bdt_ack. Qed.
Print Assumptions C09_roundtrip_read_bdt_ack.

Theorem C09_roundtrip_forwarded_npdu : forall a d,
  lenN a = 6 -> bytes_ok a = true -> bytes_ok d = true -> lenN d <= 65525 ->
  exists bs, enc_frame (Forwarded (ABytes a) d) = Ok bs /\ dec_frame bs = Ok (Forwarded (ABytes a) d)
             /\ lenN bs = 10 + lenN d.
Proof. exact roundtrip_forwarded. Qed.
Print Assumptions C09_roundtrip_forwarded_npdu.

Theorem C09_roundtrip_register_fd : forall ttl, (0 <= ttl < 65536)%Z ->
  exists bs, enc_frame (RegisterFD (Some ttl)) = Ok bs /\ dec_frame bs = Ok (RegisterFD (Some ttl)) /\ lenN bs = 6.
Proof. exact roundtrip_register_fd. Qed.
Print Assumptions C09_roundtrip_register_fd.

Theorem C09_roundtrip_read_fdt :
  exists bs, enc_frame ReadFDT = Ok bs /\ dec_frame bs = Ok ReadFDT /\ lenN bs = 4.
Proof. exact roundtrip_read_fdt. Qed.
Print Assumptions C09_roundtrip_read_fdt.

Theorem C09_roundtrip_read_fdt_ack : forall t, forallb wf_fdte t = true -> lenN t <= 6553 ->
  exists bs, enc_frame (ReadFDTAck t) = Ok bs /\ dec_frame bs = Ok (ReadFDTAck t) /\ lenN bs = 4 + 10 * lenN t.
Proof. exact roundtrip_read_fdt_ack. Qed.
Print Assumptions C09_roundtrip_read_fdt_ack.

Theorem C09_roundtrip_delete_fdt_entry : forall a, lenN a = 6 -> bytes_ok a = true ->
  exists bs, enc_frame (DeleteFDT (ABytes a)) = Ok bs /\ dec_frame bs = Ok (DeleteFDT (ABytes a)) /\ lenN bs = 10.
Proof. exact roundtrip_delete_fdt. Qed.
Print Assumptions C09_roundtrip_delete_fdt_entry.

Theorem C09_roundtrip_distribute_broadcast : forall d, bytes_ok d = true -> lenN d <= 65531 ->
  exists bs, enc_frame (Distribute d) = Ok bs /\ dec_frame bs = Ok (Distribute d) /\ lenN bs = 4 + lenN d.
Proof. exact roundtrip_distribute. Qed.
Print Assumptions C09_roundtrip_distribute_broadcast.

Theorem C09_roundtrip_original_unicast : forall d, bytes_ok d = true -> lenN d <= 65531 ->
  exists bs, enc_frame (OrigUnicast d) = Ok bs /\ dec_frame bs = Ok (OrigUnicast d) /\ lenN bs = 4 + lenN d.
Proof. exact roundtrip_orig_unicast. Qed.
Print Assumptions C09_roundtrip_original_unicast.

Theorem C09_roundtrip_original_broadcast : forall d, bytes_ok d = true -> lenN d <= 65531 ->
  exists bs, enc_frame (OrigBroadcast d) = Ok bs /\ dec_frame bs = Ok (OrigBroadcast d) /\ lenN bs = 4 + lenN d.
Proof. exact roundtrip_orig_broadcast. Qed.
Print Assumptions C09_roundtrip_original_broadcast.

(* Address((ip, port)) with a port in 0..65535 yields six well-formed octets carrying ip and port unchanged *)
Theorem C09_ip_port_octets : forall a b c d port,
  a < 256 -> b < 256 -> c < 256 -> d < 256 -> (0 <= port < 65536)%Z ->
  exists l, mk_ip a b c d port = Ok (ABytes l) /\ wf_addr (ABytes l) = true /\
            firstn 4 l = [a; b; c; d] /\ Z.of_N (port_of l) = port.
Proof. exact ip_port_octets. Qed.
Print Assumptions C09_ip_port_octets.

(* ... and any other port is refused at construction (ValueError), so no frame is built from it *)
Theorem C09_ip_port_refused : forall a b c d port,
  (port < 0 \/ 65535 < port)%Z -> mk_ip a b c d port = Err ValueErr.
Proof. exact ip_port_refused. Qed.
Print Assumptions C09_ip_port_refused.

(* a table (or other parameter) changed after construction without the length being recomputed:
   the encoder refuses rather than emit a frame whose length field lies *)
Theorem C09_stale_length_refused : forall stored m, wf_msg m = true ->
  enc_len stored m <> frame_len m -> enc_frame_with stored m = Err EncodingError.
Proof. exact stale_refused. Qed.
Print Assumptions C09_stale_length_refused.

(* inbound: wrong type octet (or no octet at all) is refused *)
Theorem C09_refuses_type : forall bs, hd_error bs <> Some 129 -> dec_frame bs = Err DecodingError.
Proof. exact dec_frame_type. Qed.
Print Assumptions C09_refuses_type.

(* inbound: a length field that differs from the datagram's octet count is refused ... *)
Theorem C09_refuses_length : forall f hi lo body,
  hi * 256 + lo <> lenN body + 4 -> dec_frame (129 :: f :: hi :: lo :: body) = Err DecodingError.
Proof. exact dec_frame_length. Qed.
Print Assumptions C09_refuses_length.

(* ... stated over ALL octet strings and therefore every function code, known or not, and every
   table / payload shape: whenever octets 2-3 do not spell the datagram's octet count, refusal *)
Theorem C09_refuses_length_any : forall bs,
  nth 2 bs 0 * 256 + nth 3 bs 0 <> lenN bs -> dec_frame bs = Err DecodingError.
Proof. exact dec_frame_length_any. Qed.
Print Assumptions C09_refuses_length_any.

(* ... datagrams too short to hold a header are refused ... *)
Theorem C09_refuses_short : forall bs, (length bs < 4)%nat -> dec_frame bs = Err DecodingError.
Proof. exact dec_frame_short. Qed.
Print Assumptions C09_refuses_short.

(* ... so whatever is accepted has type 0x81, a function octet naming the delivered class, and a
   length field equal to the datagram's octet count *)
Theorem C09_accepts_only_consistent : forall bs m, dec_frame bs = Ok m ->
  exists hi lo body, bs = 129 :: fn_of m :: hi :: lo :: body /\ hi * 256 + lo = lenN bs.
Proof. exact dec_frame_accepts. Qed.
Print Assumptions C09_accepts_only_consistent.

(* function codes outside the twelve are refused (DecodingError, after the fix: commit) *)
Theorem C09_refuses_unknown_function : forall f hi lo body,
  12 <= f -> dec_frame (129 :: f :: hi :: lo :: body) = Err DecodingError.
Proof. exact dec_frame_unknown. Qed.
Print Assumptions C09_refuses_unknown_function.

(* arbitrary octets: the decoder terminates (table loops never run out of fuel) with a message or
   DecodingError — no other exception class escapes *)
Theorem C09_decode_total : forall bs,
  (exists m, dec_frame bs = Ok m) \/ dec_frame bs = Err DecodingError.
Proof. exact dec_frame_total. Qed.
Print Assumptions C09_decode_total.

(* whatever is accepted from a datagram of octets is a well-formed message (six-octet addresses,
   masks < 2^32, 16-bit fields) ... *)
Theorem C09_decoded_wellformed : forall bs m,
  bytes_ok bs = true -> dec_frame bs = Ok m -> wf_msg m = true.
Proof. exact dec_frame_wf. Qed.
Print Assumptions C09_decoded_wellformed.

(* ... which re-encodes (never longer than the datagram: fixed-size classes ignore trailing octets)
   to a frame that decodes to the same message *)
Theorem C09_reencode_stable : forall bs m, bytes_ok bs = true -> dec_frame bs = Ok m ->
  exists bs', enc_frame m = Ok bs' /\ dec_frame bs' = Ok m /\ lenN bs' <= lenN bs.
Proof. exact reencode_stable. Qed.
Print Assumptions C09_reencode_stable.

(* the registry read from the source maps exactly the twelve function codes to the twelve classes *)
Theorem C09_registry : forall f k, lookup_fn f bvl_pdu_types = Some k <-> fn_of_kind k = f.
Proof. exact registry_exact. Qed.
Print Assumptions C09_registry.

(* ======== the tie by TRANSLATION ==========================================================
   BacGen.BvllFns is regenerated from py34/bacpypes/bvll.py on every run by
   translator/gen_bvllfns.py (statement-by-statement translation of the method bodies); the
   theorems below say the translated text and the hand model are the same functions, for all
   inputs, and restate the main results directly on the translated functions. *)

(* klass.messageType, read from the class bodies, is the Annex J code of the class *)
Theorem C09_translated_message_type_is_model : forall k, class_messageType k = fn_of_kind k.
Proof. exact message_type_is_model. Qed.
Print Assumptions C09_translated_message_type_is_model.

(* BVLCI.update copies exactly the three header attributes *)
Theorem C09_translated_update_is_model : forall dst src, BVLCI_update dst src = Ok (hdr_copy dst src, src).
Proof. exact BVLCI_update_is_model. Qed.
Print Assumptions C09_translated_update_is_model.

(* BVLCI.encode + BVLPDU.encode, any object into any PDU: type, function, length check, length, body *)
Theorem C09_translated_bvlpdu_encode_is_model : forall self pdu,
  BVLPDU_encode self pdu =
  do t <- put (bvlciType self);
  do f <- put (bvlciFunction self);
  if negb (bvlciLength self =? lenN (pduData self) + 4) then Err EncodingError
  else Ok (self, py_append pdu (t ++ f ++ put_short (bvlciLength self) ++ pduData self)).
Proof. exact BVLPDU_encode_is_model. Qed.
Print Assumptions C09_translated_bvlpdu_encode_is_model.

(* BVLCI.decode + BVLPDU.decode, any object from any PDU, is dec_bvlci *)
Theorem C09_translated_bvlpdu_decode_is_model : forall self pdu,
  BVLPDU_decode self pdu =
  do (fl, body) <- dec_bvlci (pduData pdu);
  Ok (set_pduData body (set_bvlciLength (snd fl) (set_bvlciFunction (fst fl) (set_bvlciType 129 self))),
      set_pduData [] pdu).
Proof. exact BVLPDU_decode_is_model. Qed.
Print Assumptions C09_translated_bvlpdu_decode_is_model.

(* the twelve encode() methods: any object of any class into any BVLPDU is enc_body / enc_len *)
Theorem C09_translated_class_encode_is_model : forall k self b,
  class_encode k self b =
  do body <- enc_body (msg_of_obj k self);
  Ok (enc_self k self, py_append (hdr_copy b (enc_self k self)) body).
Proof. exact class_encode_is_model. Qed.
Print Assumptions C09_translated_class_encode_is_model.

(* the twelve decode() methods: whatever the receiving object held before, its parameters
   afterwards are dec_body of the octets (so nothing of an earlier frame or of a shared default
   survives in the model of the code) and its header is the BVLPDU's *)
Theorem C09_translated_class_decode_is_model : forall k self b,
  match class_decode k self b with
  | Ok (r, _) => dec_body k (pduData b) = Ok (msg_of_obj k r) /\ same_header r b
  | Err e => dec_body k (pduData b) = Err e
  end.
Proof. exact class_decode_spec. Qed.
Print Assumptions C09_translated_class_decode_is_model.

(* whole frames through AnnexJCodec *)
Theorem C09_translated_enc_frame_is_model : forall stored m, gen_enc_frame_with stored m = enc_frame_with stored m.
Proof. exact gen_enc_frame_with_is_model. Qed.
Print Assumptions C09_translated_enc_frame_is_model.

Theorem C09_translated_dec_frame_is_model : forall fresh bs, gen_dec_frame_from fresh bs = dec_frame bs.
Proof. exact gen_dec_frame_from_is_model. Qed.
Print Assumptions C09_translated_dec_frame_is_model.

(* the delivered object carries the function and length that were read and checked *)
Theorem C09_translated_delivered_header : forall fresh bs k rpdu,
  gen_confirmation fresh bs = Ok (k, rpdu) ->
  exists body, dec_bvlci bs = Ok (bvlciFunction rpdu, bvlciLength rpdu, body) /\ bvlciType rpdu = 129 /\
               lookup_fn (bvlciFunction rpdu) bvl_pdu_types = Some k.
Proof. exact gen_confirmation_header. Qed.
Print Assumptions C09_translated_delivered_header.

(* the property's statements on the translated functions *)
Theorem C09_translated_length_field : forall stored m bs,
  gen_enc_frame_with stored m = Ok bs -> lenN bs < 65536 ->
  nth 0 bs 0 = 129 /\ nth 1 bs 0 = fn_of m /\ nth 2 bs 0 * 256 + nth 3 bs 0 = lenN bs.
Proof. exact gen_length_field. Qed.
Print Assumptions C09_translated_length_field.

Theorem C09_translated_roundtrip : forall fresh m, wf_msg m = true -> frame_len m < 65536 ->
  exists bs, gen_enc_frame m = Ok bs /\ gen_dec_frame_from fresh bs = Ok m /\ lenN bs = frame_len m.
Proof. exact gen_frame_roundtrip. Qed.
Print Assumptions C09_translated_roundtrip.

Theorem C09_translated_stale_length_refused : forall stored m, wf_msg m = true ->
  enc_len stored m <> frame_len m -> gen_enc_frame_with stored m = Err EncodingError.
Proof. exact gen_stale_refused. Qed.
Print Assumptions C09_translated_stale_length_refused.

Theorem C09_translated_refuses_type : forall fresh bs,
  hd_error bs <> Some 129 -> gen_dec_frame_from fresh bs = Err DecodingError.
Proof. exact gen_dec_frame_type. Qed.
Print Assumptions C09_translated_refuses_type.

Theorem C09_translated_refuses_length_any : forall fresh bs,
  nth 2 bs 0 * 256 + nth 3 bs 0 <> lenN bs -> gen_dec_frame_from fresh bs = Err DecodingError.
Proof. exact gen_dec_frame_length_any. Qed.
Print Assumptions C09_translated_refuses_length_any.

Theorem C09_translated_refuses_unknown_function : forall fresh f hi lo body,
  12 <= f -> gen_dec_frame_from fresh (129 :: f :: hi :: lo :: body) = Err DecodingError.
Proof. exact gen_dec_frame_unknown. Qed.
Print Assumptions C09_translated_refuses_unknown_function.

Theorem C09_translated_accepts_only_consistent : forall fresh bs m, gen_dec_frame_from fresh bs = Ok m ->
  exists hi lo body, bs = 129 :: fn_of m :: hi :: lo :: body /\ hi * 256 + lo = lenN bs.
Proof. exact gen_dec_frame_accepts. Qed.
Print Assumptions C09_translated_accepts_only_consistent.

Theorem C09_translated_decode_total : forall fresh bs,
  (exists m, gen_dec_frame_from fresh bs = Ok m) \/ gen_dec_frame_from fresh bs = Err DecodingError.
Proof. exact gen_dec_frame_total. Qed.
Print Assumptions C09_translated_decode_total.

(* non-vacuity of the translated definitions: they compute *)
Example C09_translated_example :
  gen_enc_frame (ReadFDTAck [mkFdte (ip_addr 192 168 0 10 47808) (Some 30%Z) (Some 5%Z)])
    = Ok [129; 7; 0; 14; 192; 168; 0; 10; 186; 192; 0; 30; 0; 5]
  /\ gen_dec_frame [129; 7; 0; 14; 192; 168; 0; 10; 186; 192; 0; 30; 0; 5]
    = Ok (ReadFDTAck [mkFdte (ABytes [192; 168; 0; 10; 186; 192]) (Some 30%Z) (Some 5%Z)])
  /\ gen_dec_frame_from (fun _ => obj_of_msg 0 (ReadFDTAck [mkFdte ANone None None])) [129; 7; 0; 4] = Ok (ReadFDTAck [])
  /\ gen_dec_frame [129; 1; 0; 9; 1; 2; 3; 4; 5] = Err DecodingError.
Proof. repeat split; vm_compute; reflexivity. Qed.

(* non-vacuity: concrete messages of every class meet wf_msg and the length bound *)
Example C09_wf_examples :
  forallb (fun m => wf_msg m && (frame_len m <? 65536))
    [Result (Some 0%Z); Result (Some 65535%Z);
     WriteBDT []; WriteBDT [mkBdte (ip_addr 192 168 0 1 47808) (Some (prefix_mask 24))];
     ReadBDT; ReadBDTAck [mkBdte (ip_addr 10 0 0 255 47809) (Some 4294967295%Z); mkBdte (ip_addr 0 0 0 0 0) (Some 0%Z)];
     Forwarded (ip_addr 1 2 3 4 65535) [1; 0; 255]; RegisterFD (Some 30%Z); ReadFDT;
     ReadFDTAck [mkFdte (ip_addr 255 255 255 255 47808) (Some 65535%Z) (Some 0%Z)];
     DeleteFDT (ABytes [1; 2; 3; 4; 186; 192]); Distribute []; OrigUnicast [1; 4; 0]; OrigBroadcast (repeat 7 1497)] = true.
Proof. vm_compute. reflexivity. Qed.
Example C09_roundtrip_example :
  enc_frame (ReadFDTAck [mkFdte (ip_addr 192 168 0 10 47808) (Some 30%Z) (Some 5%Z)])
    = Ok [129; 7; 0; 14; 192; 168; 0; 10; 186; 192; 0; 30; 0; 5]
  /\ dec_frame [129; 7; 0; 14; 192; 168; 0; 10; 186; 192; 0; 30; 0; 5]
    = Ok (ReadFDTAck [mkFdte (ABytes [192; 168; 0; 10; 186; 192]) (Some 30%Z) (Some 5%Z)]).
Proof. split; vm_compute; reflexivity. Qed.
Example C09_stale_example :
  enc_frame_with (ctor_len (WriteBDT [])) (WriteBDT [mkBdte (ip_addr 1 2 3 4 47808) (Some 0%Z)]) = Err EncodingError.
Proof. vm_compute. reflexivity. Qed.
Example C09_refusal_examples :
  dec_frame [130; 2; 0; 4] = Err DecodingError /\ dec_frame [129; 2; 0; 5] = Err DecodingError /\
  dec_frame [129; 2; 0; 4; 0] = Err DecodingError /\ dec_frame [129; 12; 0; 4] = Err DecodingError /\
  dec_frame [129; 2; 0; 4] = Ok ReadBDT.
Proof. repeat split; vm_compute; reflexivity. Qed.
