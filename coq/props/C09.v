(* C09 — BACnet/IP frames (placeholder while the correspondence is being established) *)
From Bac Require Import Base Bvll BvllFacts.
Open Scope N_scope.
Theorem C09_registry_tables : table_is bvl_ctor_function fn_of_kind = true.
Proof. exact ctor_function_table. Qed.
Print Assumptions C09_registry_tables.
